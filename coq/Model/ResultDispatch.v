(* C20 — the result pipeline of the window path: what happens to the aggregation result rows of one
   window firing before, and after, they are handed to the result channel and the sinks.

   Code anchor (rulego/streamsql): stream/processor_data.go processAggregationResults
     projectGroupColumns / applyWindowAnalytic   write into every result row            (rd_pre)
     applyDistinct                               drops rows, writes nothing             (rd_distinct)
     applyHavingFilter                           drops rows, writes nothing             (rd_having)
     delete of the "__having_N__" keys           writes into every surviving row        (rd_strip_all)
     applyOrderBy (sort.SliceStable)             permutes the batch slice               (rd_sort)
     LIMIT                                       cuts the batch slice                   (rd_limit_cut)
     sendResultNonBlocking / callSinksAsync      the receiver now holds these maps      (delivery)
     -- nothing after the hand-over --
   stream/processor_data.go (window firing): aggregator.GetResults allocates the row maps of a batch.

   Rows are objects on the heap of Model/Isolation.v (address = position), a batch is a list of
   addresses.  A delivery is recorded as (addresses handed over, their content at that moment).
   [deferred = true] is the pipeline with the removal of the hidden columns moved behind the hand-over
   (a Go defer inside the HAVING block runs at function exit): it is refuted below; [deferred = false]
   is the code.  All names carry the prefix rd_. *)
From SV Require Export Base.Bytes Model.Isolation.

(* "__having_" *)
Definition rd_hidden_prefix : bytes := [95; 95; 104; 97; 118; 105; 110; 103; 95]%N.
Definition rd_hidden (k : bytes) : bool := has_prefix k rd_hidden_prefix.

(* for k := range r { if strings.HasPrefix(k, "__having_") { delete(r, k) } } *)
Definition rd_strip (r : irow) : irow := filter (fun kv => negb (rd_hidden (fst kv))) r.

Record rd_cfg := {
  rd_pre : irow -> irow;                   (* group-column projection, analytic aliases: any write *)
  rd_distinct : option (irow -> bool);     (* DISTINCT as a keep-predicate of the batch at hand (None = off) *)
  rd_having : option (irow -> bool);       (* config.Having <> "" : the compiled condition *)
  rd_ordered : bool;                       (* len(config.OrderBy) > 0 *)
  rd_before : irow -> irow -> bool;        (* less-or-equal under the ORDER BY keys *)
  rd_limit : nat                           (* config.Limit, 0 = none *)
}.

Definition rd_batch := list nat.

Fixpoint rd_write_all (f : irow -> irow) (h : iheap) (b : rd_batch) : iheap :=
  match b with
  | [] => h
  | a :: b' => rd_write_all f (iso_hput h a (f (iso_hget h a))) b'
  end.

Definition rd_strip_all (h : iheap) (b : rd_batch) : iheap := rd_write_all rd_strip h b.

Definition rd_filter (p : option (irow -> bool)) (h : iheap) (b : rd_batch) : rd_batch :=
  match p with
  | Some f => filter (fun a => f (iso_hget h a)) b
  | None => b
  end.

(* stable insertion sort of the addresses by the content of their rows *)
Fixpoint rd_insert (le : irow -> irow -> bool) (h : iheap) (a : nat) (s : rd_batch) : rd_batch :=
  match s with
  | [] => [a]
  | x :: s' => if le (iso_hget h a) (iso_hget h x) then a :: s else x :: rd_insert le h a s'
  end.
Definition rd_sort (le : irow -> irow -> bool) (h : iheap) (b : rd_batch) : rd_batch :=
  fold_right (rd_insert le h) [] b.

(* if Limit > 0 && len(finalResults) > Limit { finalResults = finalResults[:Limit] } *)
Definition rd_limit_cut (n : nat) (b : rd_batch) : rd_batch :=
  if (0 <? n) && (n <? length b) then firstn n b else b.

Definition rd_delivery := (rd_batch * list irow)%type.

Definition rd_dispatch (deferred : bool) (c : rd_cfg) (h : iheap) (b : rd_batch) : iheap * rd_delivery :=
  let h0 := rd_write_all (rd_pre c) h b in
  let b0 := rd_filter (rd_distinct c) h0 b in
  let b1 := rd_filter (rd_having c) h0 b0 in
  let strip := match rd_having c with Some _ => true | None => false end in
  let h1 := if strip && negb deferred then rd_strip_all h0 b1 else h0 in
  let b2 := if rd_ordered c then rd_sort (rd_before c) h1 b1 else b1 in
  let b3 := rd_limit_cut (rd_limit c) b2 in
  let dl := (b3, map (iso_hget h1) b3) in                       (* the receiver holds b3 and sees h1 *)
  let h2 := if strip && deferred then rd_strip_all h1 b1 else h1 in
  (h2, dl).

(* aggregator.GetResults: the rows of a firing are new maps *)
Definition rd_alloc (h : iheap) (rows : list irow) : iheap * rd_batch :=
  (h ++ rows, seq (length h) (length rows)).

(* one instance, firing after firing *)
Fixpoint rd_run (deferred : bool) (c : rd_cfg) (h : iheap) (firings : list (list irow)) : iheap * list rd_delivery :=
  match firings with
  | [] => (h, [])
  | rows :: r =>
      let '(h1, b) := rd_alloc h rows in
      let '(h2, d) := rd_dispatch deferred c h1 b in
      let '(h3, ds) := rd_run deferred c h2 r in
      (h3, d :: ds)
  end.
