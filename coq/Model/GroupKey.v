(* Model of the GROUP BY key encoders and of grouping by the encoded key (C04; used by C09).
   Code anchors (rulego/streamsql, after the `fix:` commits):
     utils/cast/groupkey.go          GroupKeyPart, groupTypeKey   (length-prefixed encoder: aggregator)
     utils/cast/groupkey_escape.go   EscapeGroupKeyText, GroupKeyNull (escaping encoder: the windows)
     aggregator/group_aggregator.go  GroupAggregator.Add (key := concatenation of GroupKeyPart),
                                     GetResults (one row per entry of ga.groups, typed key values)
     window/counting_window.go       getKey                      ("__global__" without keys)
     window/session_window.go        extractSessionCompositeKey  ("default" without keys)
     window/global_window.go         getKeyAndValues             ("__global__" without keys)
   The three window sites keep their '|'-joined text keys (a value without '|' and '\' keeps
   exactly its old text), but escape '\' and '|' inside a column and write NULL as "\N".
   The encoders as they were written before the repair (separator-joined text) are kept below
   ([enc_old_agg], [enc_old_win]) for the history theorems C04_*_old_refuted. *)
From SV Require Export Base.Bytes.
From Coq Require Import Decimal DecimalN DecimalZ.

(* ---- values of a grouping column ------------------------------------------------------
   One constructor per *kind* that groupTypeKey distinguishes. The kind is a property of the
   value, not of its Go type: every integral number (int, int64, uint.., an integral float64
   in the int64 range) is [VInt] of the integer it equals -- int(1) and float64(1) are one
   group --, any other float64 is [VFlt] of its shortest decimal rendering
   (strconv.FormatFloat 'g' -1), which the model receives as text: float printing is
   modelled, not verified. *)
Inductive kvalue : Type :=
  | KNull
  | KStr (s : bytes)
  | KInt (z : Z)        (* integral number of any Go numeric type *)
  | KFlt (text : bytes) (* non-integral (or out-of-range) float64, as rendered *)
  | KBool (b : bool).

Definition kvalue_eqb (a b : kvalue) : bool :=
  match a, b with
  | KNull, KNull => true
  | KStr x, KStr y => bytes_eqb x y
  | KInt x, KInt y => Z.eqb x y
  | KFlt x, KFlt y => bytes_eqb x y
  | KBool x, KBool y => Bool.eqb x y
  | _, _ => false
  end.

Fixpoint ktuple_eqb (a b : list kvalue) : bool :=
  match a, b with
  | [], [] => true
  | x :: a', y :: b' => kvalue_eqb x y && ktuple_eqb a' b'
  | _, _ => false
  end.

(* ---- decimal printing (strconv.Itoa / FormatInt) -------------------------------------- *)
Fixpoint k_uint_bytes (d : Decimal.uint) : bytes :=
  match d with
  | Nil => []
  | D0 d => 48 :: k_uint_bytes d | D1 d => 49 :: k_uint_bytes d | D2 d => 50 :: k_uint_bytes d
  | D3 d => 51 :: k_uint_bytes d | D4 d => 52 :: k_uint_bytes d | D5 d => 53 :: k_uint_bytes d
  | D6 d => 54 :: k_uint_bytes d | D7 d => 55 :: k_uint_bytes d | D8 d => 56 :: k_uint_bytes d
  | D9 d => 57 :: k_uint_bytes d
  end%N.

Definition k_dec_N (n : N) : bytes := k_uint_bytes (N.to_uint n).
Definition k_dec_Z (z : Z) : bytes :=
  match Z.to_int z with
  | Pos d => k_uint_bytes d
  | Neg d => 45%N :: k_uint_bytes d      (* '-' *)
  end.

(* ---- utils/cast/groupkey.go ------------------------------------------------------------ *)
Definition k_colon : byte := 58%N.   (* ':' *)
Definition k_bar   : byte := 124%N.  (* '|' *)

(* groupTypeKey / groupFloatKey: "<kind>|<value text>" *)
Definition k_type_key (v : kvalue) : bytes :=
  match v with
  | KNull      => [110; 105; 108; 124]%N                                   (* "nil|"     *)
  | KStr s     => [115; 116; 114; 105; 110; 103; 124]%N ++ s               (* "string|"  *)
  | KInt z     => [105; 110; 116; 124]%N ++ k_dec_Z z                        (* "int|"     *)
  | KFlt t     => [102; 108; 111; 97; 116; 124]%N ++ t                     (* "float|"   *)
  | KBool true  => [98; 111; 111; 108; 124; 116; 114; 117; 101]%N          (* "bool|true"  *)
  | KBool false => [98; 111; 111; 108; 124; 102; 97; 108; 115; 101]%N      (* "bool|false" *)
  end.

(* GroupKeyPart: strconv.Itoa(len(tk)) + ":" + tk + "|" *)
Definition k_key_part (v : kvalue) : bytes :=
  let tk := k_type_key v in
  k_dec_N (N.of_nat (length tk)) ++ k_colon :: tk ++ [k_bar].

(* the composite key: plain concatenation of the segments *)
Definition enc_tuple (vs : list kvalue) : bytes := concat (map k_key_part vs).

(* ---- rows --------------------------------------------------------------------------------
   A row is its id and the values of the grouping columns in GROUP BY order; [None] is a
   field that is missing from the map. All four sites treat a missing field like nil. *)
Record krow : Type := mkKRow { krid : Z; kvals : list (option kvalue) }.

Definition knorm (o : option kvalue) : kvalue := match o with Some v => v | None => KNull end.
Definition ktuple_of (r : krow) : list kvalue := map knorm (kvals r).

(* ---- the escaping encoder of the three window sites ---------------------------------------
   EscapeGroupKeyText: '\' -> "\\", '|' -> "\|"; NULL/missing -> GroupKeyNull = "\N"; columns joined
   by '|'. The text of a non-string scalar is what the site always used (cast.ToString in the
   counting and session windows, %v in the global window): decimal digits for an integral
   number, "true"/"false", and for a non-integral float the rendering the site produces, which
   the model receives as text ([KFlt]). *)
Definition k_bslash : byte := 92%N.  (* '\' *)
Fixpoint k_esc (s : bytes) : bytes :=
  match s with
  | [] => []
  | c :: s' => if N.eqb c k_bslash || N.eqb c k_bar then k_bslash :: c :: k_esc s' else c :: k_esc s'
  end.
Definition k_null_mark : bytes := [92; 78]%N.   (* "\N" *)
Definition k_col_text (v : kvalue) : bytes :=
  match v with
  | KNull => k_null_mark
  | KStr s => k_esc s
  | KInt z => k_esc (k_dec_Z z)
  | KFlt t => k_esc t
  | KBool true => [116; 114; 117; 101]%N
  | KBool false => [102; 97; 108; 115; 101]%N
  end.
Fixpoint k_join_bar (ps : list bytes) : bytes :=   (* strings.Join(parts, "|") *)
  match ps with
  | [] => []
  | [p] => p
  | p :: ps' => p ++ k_bar :: k_join_bar ps'
  end.
Definition enc_win (vs : list kvalue) : bytes := k_join_bar (map k_col_text vs).

(* per-site keys *)
Definition agg_key (r : krow) : bytes := enc_tuple (ktuple_of r).
Definition s_global : bytes := [95; 95; 103; 108; 111; 98; 97; 108; 95; 95]%N.  (* "__global__" *)
Definition s_default : bytes := [100; 101; 102; 97; 117; 108; 116]%N.            (* "default" *)
Definition tuple_key (nokeys : bytes) (t : list kvalue) : bytes :=
  match t with [] => nokeys | _ => enc_win t end.
Definition win_key (nokeys : bytes) (r : krow) : bytes := tuple_key nokeys (ktuple_of r).
Definition cnt_key := win_key s_global.   (* counting_window.go getKey *)
Definition glb_key := win_key s_global.   (* global_window.go getKeyAndValues *)
Definition ses_key := win_key s_default.  (* session_window.go extractSessionCompositeKey *)

(* the property quantifies over ONE scalar type per grouping column (plus NULL): a schema gives
   each column its kind, and a tuple conforms if every value is NULL or of its column's kind.
   (The window keys are text: the number 30 and the string "30" in one column would share a key;
   that input class is outside the property's quantifier.) *)
Inductive kkind : Type := KdStr | KdInt | KdFlt | KdBool.
Definition of_kind (k : kkind) (v : kvalue) : Prop :=
  match v, k with
  | KNull, _ => True
  | KStr _, KdStr => True
  | KInt _, KdInt => True
  | KFlt _, KdFlt => True
  | KBool _, KdBool => True
  | _, _ => False
  end.
Definition conforms (sch : list kkind) (t : list kvalue) : Prop := Forall2 of_kind sch t.

(* ---- grouping by the encoded key (GroupAggregator.Add / GetResults; the per-key maps of the
   session and global windows have the same shape). The state is the Go map as an association
   list in first-seen order: key -> (typed key values recorded at creation, rows aggregated).
   The rows stand for the accumulators: count( * ), collect(id), first/last_value are functions
   of the sequence of rows fed to the group. GetResults ranges over the map, i.e. reports the
   entries in an unspecified order; every statement about [group] is order-independent. *)
Definition kg_state := list (bytes * (list kvalue * list krow)).

Fixpoint kg_add (st : kg_state) (k : bytes) (t : list kvalue) (r : krow) : kg_state :=
  match st with
  | [] => [(k, (t, [r]))]
  | (k', (t', rs)) :: st' =>
      if bytes_eqb k k' then (k', (t', rs ++ [r])) :: st'
      else (k', (t', rs)) :: kg_add st' k t r
  end.

Definition kg_step (key : krow -> bytes) (st : kg_state) (r : krow) : kg_state :=
  kg_add st (key r) (ktuple_of r) r.

Definition kgroup_by (key : krow -> bytes) (rows : list krow) : list (list kvalue * list krow) :=
  map snd (fold_left (kg_step key) rows []).

Definition kgroup : list krow -> list (list kvalue * list krow) := kgroup_by agg_key.

(* projectGroupColumns / GetResults: the tuple is reported under the output names *)
Definition kreport (names : list bytes) (t : list kvalue) : list (bytes * kvalue) := combine names t.
Fixpoint klookup (n : bytes) (r : list (bytes * kvalue)) : option kvalue :=
  match r with
  | [] => None
  | (k, v) :: r' => if bytes_eqb n k then Some v else klookup n r'
  end.

(* ---- the encoders before the repair (history) ------------------------------------------
   text of a value: the string itself, %v / cast.ToString for numbers *)
Definition k_old_text (null : bytes) (v : kvalue) : bytes :=
  match v with
  | KNull => null
  | KStr s => s
  | KInt z => k_dec_Z z
  | KFlt t => t
  | KBool true => [116; 114; 117; 101]%N
  | KBool false => [102; 97; 108; 115; 101]%N
  end.
(* aggregator: value ++ "\x1f" per column, "\x00NULL" for NULL/missing *)
Definition enc_old_agg (vs : list kvalue) : bytes :=
  concat (map (fun v => k_old_text [0; 78; 85; 76; 76]%N v ++ [31%N]) vs).
(* windows: strings.Join(parts, "|"), NULL/missing = "" *)
Definition enc_old_win (vs : list kvalue) : bytes := k_join_bar (map (k_old_text []) vs).
