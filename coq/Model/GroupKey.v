(* Model of the GROUP BY key encoders and of grouping by the encoded key (C04; used by C09).
   Code anchors (rulego/streamsql, after the `fix:` commits that made the four sites share one
   encoder):
     utils/cast/groupkey.go          GroupKeyPart, groupTypeKey   (the encoder)
     aggregator/group_aggregator.go  GroupAggregator.Add (key := concatenation of GroupKeyPart),
                                     GetResults (one row per entry of ga.groups, typed key values)
     window/counting_window.go       getKey                      ("__global__" without keys)
     window/session_window.go        extractSessionCompositeKey  ("default" without keys)
     window/global_window.go         getKeyAndValues             ("__global__" without keys)
   The encoders as they were written before the repair (separator-joined text) are kept below
   ([enc_old_agg], [enc_old_win]) for the history theorems C04_*_old_refuted. *)
From SV Require Export Base.Bytes.
From Coq Require Import Decimal DecimalN DecimalZ.

(* ---- values of a grouping column ------------------------------------------------------
   One constructor per *kind* that groupTypeKey distinguishes. The kind is a property of the
   value, not of its Go type: every integral number (int, int64, uint.., an integral float64
   in the int64 range) is [VInt] of the integer it equals -- int(1) and float64(1) are one
   group --, any other float64 is [VFlt] of its shortest decimal rendering
   (strconv.FormatFloat 'g' -1), which the model receives as text: float printing is
   modelled, not verified. *)
Inductive value : Type :=
  | VNull
  | VStr (s : bytes)
  | VInt (z : Z)        (* integral number of any Go numeric type *)
  | VFlt (text : bytes) (* non-integral (or out-of-range) float64, as rendered *)
  | VBool (b : bool).

Definition value_eqb (a b : value) : bool :=
  match a, b with
  | VNull, VNull => true
  | VStr x, VStr y => bytes_eqb x y
  | VInt x, VInt y => Z.eqb x y
  | VFlt x, VFlt y => bytes_eqb x y
  | VBool x, VBool y => Bool.eqb x y
  | _, _ => false
  end.

Fixpoint tuple_eqb (a b : list value) : bool :=
  match a, b with
  | [], [] => true
  | x :: a', y :: b' => value_eqb x y && tuple_eqb a' b'
  | _, _ => false
  end.

(* ---- decimal printing (strconv.Itoa / FormatInt) -------------------------------------- *)
Fixpoint uint_bytes (d : Decimal.uint) : bytes :=
  match d with
  | Nil => []
  | D0 d => 48 :: uint_bytes d | D1 d => 49 :: uint_bytes d | D2 d => 50 :: uint_bytes d
  | D3 d => 51 :: uint_bytes d | D4 d => 52 :: uint_bytes d | D5 d => 53 :: uint_bytes d
  | D6 d => 54 :: uint_bytes d | D7 d => 55 :: uint_bytes d | D8 d => 56 :: uint_bytes d
  | D9 d => 57 :: uint_bytes d
  end%N.

Definition dec_N (n : N) : bytes := uint_bytes (N.to_uint n).
Definition dec_Z (z : Z) : bytes :=
  match Z.to_int z with
  | Pos d => uint_bytes d
  | Neg d => 45%N :: uint_bytes d      (* '-' *)
  end.

(* ---- utils/cast/groupkey.go ------------------------------------------------------------ *)
Definition colon : byte := 58%N.   (* ':' *)
Definition bar   : byte := 124%N.  (* '|' *)

(* groupTypeKey / groupFloatKey: "<kind>|<value text>" *)
Definition type_key (v : value) : bytes :=
  match v with
  | VNull      => [110; 105; 108; 124]%N                                   (* "nil|"     *)
  | VStr s     => [115; 116; 114; 105; 110; 103; 124]%N ++ s               (* "string|"  *)
  | VInt z     => [105; 110; 116; 124]%N ++ dec_Z z                        (* "int|"     *)
  | VFlt t     => [102; 108; 111; 97; 116; 124]%N ++ t                     (* "float|"   *)
  | VBool true  => [98; 111; 111; 108; 124; 116; 114; 117; 101]%N          (* "bool|true"  *)
  | VBool false => [98; 111; 111; 108; 124; 102; 97; 108; 115; 101]%N      (* "bool|false" *)
  end.

(* GroupKeyPart: strconv.Itoa(len(tk)) + ":" + tk + "|" *)
Definition key_part (v : value) : bytes :=
  let tk := type_key v in
  dec_N (N.of_nat (length tk)) ++ colon :: tk ++ [bar].

(* the composite key: plain concatenation of the segments *)
Definition enc_tuple (vs : list value) : bytes := concat (map key_part vs).

(* ---- rows --------------------------------------------------------------------------------
   A row is its id and the values of the grouping columns in GROUP BY order; [None] is a
   field that is missing from the map. All four sites treat a missing field like nil. *)
Record row : Type := mkRow { rid : Z; rvals : list (option value) }.

Definition norm (o : option value) : value := match o with Some v => v | None => VNull end.
Definition tuple_of (r : row) : list value := map norm (rvals r).

(* per-site keys *)
Definition agg_key (r : row) : bytes := enc_tuple (tuple_of r).
Definition s_global : bytes := [95; 95; 103; 108; 111; 98; 97; 108; 95; 95]%N.  (* "__global__" *)
Definition s_default : bytes := [100; 101; 102; 97; 117; 108; 116]%N.            (* "default" *)
Definition tuple_key (nokeys : bytes) (t : list value) : bytes :=
  match t with [] => nokeys | _ => enc_tuple t end.
Definition win_key (nokeys : bytes) (r : row) : bytes := tuple_key nokeys (tuple_of r).
Definition cnt_key := win_key s_global.   (* counting_window.go getKey *)
Definition glb_key := win_key s_global.   (* global_window.go getKeyAndValues *)
Definition ses_key := win_key s_default.  (* session_window.go extractSessionCompositeKey *)

(* ---- grouping by the encoded key (GroupAggregator.Add / GetResults; the per-key maps of the
   session and global windows have the same shape). The state is the Go map as an association
   list in first-seen order: key -> (typed key values recorded at creation, rows aggregated).
   The rows stand for the accumulators: count( * ), collect(id), first/last_value are functions
   of the sequence of rows fed to the group. GetResults ranges over the map, i.e. reports the
   entries in an unspecified order; every statement about [group] is order-independent. *)
Definition gstate := list (bytes * (list value * list row)).

Fixpoint g_add (st : gstate) (k : bytes) (t : list value) (r : row) : gstate :=
  match st with
  | [] => [(k, (t, [r]))]
  | (k', (t', rs)) :: st' =>
      if bytes_eqb k k' then (k', (t', rs ++ [r])) :: st'
      else (k', (t', rs)) :: g_add st' k t r
  end.

Definition g_step (key : row -> bytes) (st : gstate) (r : row) : gstate :=
  g_add st (key r) (tuple_of r) r.

Definition group_by (key : row -> bytes) (rows : list row) : list (list value * list row) :=
  map snd (fold_left (g_step key) rows []).

Definition group : list row -> list (list value * list row) := group_by agg_key.

(* projectGroupColumns / GetResults: the tuple is reported under the output names *)
Definition report (names : list bytes) (t : list value) : list (bytes * value) := combine names t.
Fixpoint lookup (n : bytes) (r : list (bytes * value)) : option value :=
  match r with
  | [] => None
  | (k, v) :: r' => if bytes_eqb n k then Some v else lookup n r'
  end.

(* ---- the encoders before the repair (history) ------------------------------------------
   text of a value: the string itself, %v / cast.ToString for numbers *)
Definition old_text (null : bytes) (v : value) : bytes :=
  match v with
  | VNull => null
  | VStr s => s
  | VInt z => dec_Z z
  | VFlt t => t
  | VBool true => [116; 114; 117; 101]%N
  | VBool false => [102; 97; 108; 115; 101]%N
  end.
(* aggregator: value ++ "\x1f" per column, "\x00NULL" for NULL/missing *)
Definition enc_old_agg (vs : list value) : bytes :=
  concat (map (fun v => old_text [0; 78; 85; 76; 76]%N v ++ [31%N]) vs).
(* windows: strings.Join(parts, "|"), NULL/missing = "" *)
Fixpoint join_bar (ps : list bytes) : bytes :=
  match ps with
  | [] => []
  | [p] => p
  | p :: ps' => p ++ bar :: join_bar ps'
  end.
Definition enc_old_win (vs : list value) : bytes := join_bar (map (old_text []) vs).
