(* C15 — MATCH_RECOGNIZE, labelled runs. Executable definitions only (proofs: Proofs/CepLabProofs.v).

   Model/Cep.v decides a match from the SET of variables each row may be labelled with; that is
   exact while a DEFINE condition reads the candidate row and PREV only. This file grows the model
   to what the engine really carries in a run: the CLASSIFICATION of the rows matched so far
   (cep/engine.go run.head = cons-list of (row, label); materialize -> rows, labels):

   * DEFINE conditions over the classification (cep/eval.go aggregate / resolveSymbolField, both
     evaluated on the run's rows + the candidate row labelled with the candidate variable):
     v > AVG(X.v), v < AVG(X.v), v > X.v, v <= X.v, COUNT(X.v) <= k, SUM(X.v) <= k       -> [agg_ok]
   * cep/engine.go advance: one successor per match-state whose DEFINE holds for the candidate row
     against the run's own history; every successor keeps its own classification   -> [lstep]
   * ingestPending/emitGreedy: the longest completion per start (over ALL classifications)
                                                                                   -> [llongest]
   * skipTo/seqOfLabel: SKIP TO FIRST/LAST X resumes after the first/last row LABELLED X of the
     reported match                                                                -> [lskip_to]
   * MEASURES over the classification (CLASSIFIER(), COUNT(X.v), SUM(X.v), MIN/MAX(X.id), X.id)
                                                                                   -> [lmeas]

   Which of several equally long classifications of a start the engine reports is not determined
   (the order of the NFA states in a closure is a Go map order): the checker of Spec/CepLabSpec.v
   accepts any valid one and follows the reported labels for AFTER MATCH SKIP. *)
From Coq Require Import List ZArith NArith Bool Arith.
From SV Require Export Model.Cep.
Import ListNotations.

(* DEFINE of one variable: the class/PREV test of Model/Cep.v AND an optional condition over the
   rows labelled [a_var] (a_kind 0 = none) *)
Record adef := mkADef { a_base : cdef; a_kind : N; a_var : N; a_k : Z }.

(* the rows matched so far with their labels, oldest first *)
Definition lhist := list (crow * N).

Definition rows_of (x : N) (h : lhist) : list crow :=
  map fst (filter (fun e => N.eqb (snd e) x) h).
Definition sum_v (l : list crow) : Z := fold_right (fun r a => (r_v r + a)%Z) 0%Z l.
Definition cnt_rows (l : list crow) : Z := Z.of_nat (length l).
Fixpoint last_row (l : list crow) : option crow :=
  match l with
  | [] => None
  | r :: t => match last_row t with Some q => Some q | None => Some r end
  end.

(* [h'] = history ++ candidate (cep/eval.go rowsLabels appends the candidate with its label;
   resolveSymbolField reads the candidate first when its label is the symbol). A comparison with
   NULL (no row labelled X; AVG of nothing) is not true; SUM of nothing is 0, COUNT is 0. Column v
   holds small integers, so the float64 quotient of AVG compares like the exact one. The rows of the
   cases judged with these conditions always carry column v ([r_vnull] is not read here); column c
   may be absent (class code 5, [cls_ok]). *)
Definition agg_ok (d : adef) (h' : lhist) (r : crow) : bool :=
  let xs := rows_of (a_var d) h' in
  match a_kind d with
  | 1%N => Z.ltb 0 (cnt_rows xs) && Z.ltb (sum_v xs) (r_v r * cnt_rows xs)
  | 2%N => Z.ltb 0 (cnt_rows xs) && Z.ltb (r_v r * cnt_rows xs) (sum_v xs)
  | 3%N => match last_row xs with Some q => Z.ltb (r_v q) (r_v r) | None => false end
  | 4%N => match last_row xs with Some q => Z.leb (r_v r) (r_v q) | None => false end
  | 5%N => Z.leb (cnt_rows xs) (a_k d)
  | 6%N => Z.leb (sum_v xs) (a_k d)
  | _ => true
  end.

Definition hprev (h : lhist) : option crow := last_row (map fst h).

(* variables beyond the DEFINE list have no condition *)
Definition lsat (defs : list adef) (h : lhist) (r : crow) (v : N) : bool :=
  match nth_error defs (N.to_nat v) with
  | None => true
  | Some d => cls_ok (d_mask (a_base d)) (r_cls r) && cmp_ok (d_cmp (a_base d)) (hprev h) r
              && agg_ok d (h ++ [(r, v)]) r
  end.

Record lcfg := mkLCfg { l_pat : pat; l_defs : list adef; l_skip : skipmode; l_within : Z }.

(* the configuration of Model/Cep.v that forgets the conditions over the classification *)
Definition base_cfg (c : lcfg) : ccfg := mkCfg (l_pat c) (map a_base (l_defs c)) (l_skip c) (l_within c).

(* ------------------------------------------------------------------ runs *)
(* the variables a word of p can start with = the match-states of the closure (cep/nfa.go) *)
Fixpoint firsts (p : pat) : list N :=
  match p with
  | PEmpty => [] | PEps => []
  | PLit v => [v]
  | PSeq p q => firsts p ++ (if nullable p then firsts q else [])
  | PAlt p q => firsts p ++ firsts q
  | PStar p => firsts p
  end.

Definition is_empty (p : pat) : bool := match p with PEmpty => true | _ => false end.

(* a run = (what is left of the pattern, classification so far); its successors on row r *)
Definition lrun := (pat * lhist)%type.
Definition lstep (defs : list adef) (r : crow) (x : lrun) : list lrun :=
  flat_map (fun v =>
              if lsat defs (snd x) r v
              then let p' := deriv (N.eqb v) (fst x) in
                   if is_empty p' then [] else [(p', snd x ++ [(r, v)])]
              else [])
           (nodup N.eq_dec (firsts (fst x))).

(* [l]: rows not yet consumed, [runs]: all runs of this start, [len]: rows consumed,
   [best]: longest accepted length so far. A row with ts - t0 > WITHIN ends every run. *)
Fixpoint llongest (c : lcfg) (t0 : Z) (runs : list lrun) (l : list crow)
         (len : nat) (best : option nat) : option nat :=
  match l with
  | [] => best
  | r :: t =>
      if negb (Z.leb (r_ts r - t0) (l_within c)) then best
      else
        let runs' := flat_map (lstep (l_defs c) r) runs in
        let best' := if existsb (fun x : lrun => nullable (fst x)) runs' then Some (S len) else best in
        llongest c t0 runs' t (S len) best'
  end.

Definition llongest_at (c : lcfg) (l : list crow) : option nat :=
  match l with
  | [] => None
  | r :: _ => llongest c (r_ts r) [(l_pat c, [])] l 0 None
  end.

(* ------------------------------------------------------------------ a labelled match *)
Fixpoint lspells_b (defs : list adef) (h : lhist) (seg : list crow) (w : list N) : bool :=
  match seg, w with
  | [], [] => true
  | r :: t, v :: w' => lsat defs h r v && lspells_b defs (h ++ [(r, v)]) t w'
  | _, _ => false
  end.

Definition lvalid_b (c : lcfg) (seg : list crow) (w : list N) : bool :=
  match seg with
  | [] => false
  | r0 :: _ => forallb (fun x => Z.leb (r_ts x - r_ts r0) (l_within c)) seg
  end
  && nullable (derivs (l_pat c) (map N.eqb w))
  && lspells_b (l_defs c) [] seg w.

(* ------------------------------------------------------------------ AFTER MATCH SKIP by labels *)
Fixpoint first_lab (v : N) (w : list N) (i : nat) : option nat :=
  match w with
  | [] => None
  | x :: t => if N.eqb x v then Some i else first_lab v t (S i)
  end.
Fixpoint last_lab (v : N) (w : list N) (i : nat) (acc : option nat) : option nat :=
  match w with
  | [] => acc
  | x :: t => last_lab v t (S i) (if N.eqb x v then Some i else acc)
  end.

(* cep/engine.go skipTo + seqOfLabel on the labels of the reported match of k rows at pos *)
Definition lskip_to (sk : skipmode) (pos k : nat) (w : list N) : nat :=
  match sk with
  | SkPast => pos + k
  | SkNext => S pos
  | SkFirst v => match first_lab v w 0 with Some i => S (pos + i) | None => pos + k end
  | SkLast v => match last_lab v w 0 None with Some i => S (pos + i) | None => pos + k end
  end.

(* ------------------------------------------------------------------ MEASURES over the labels *)
(* (COUNT(X.v), SUM(X.v), MIN(X.id), MAX(X.id), X.id) of the rows [seg] labelled [w];
   -1 stands for NULL (no row labelled X) *)
Definition min_id (l : list crow) : Z :=
  match l with [] => (-1)%Z | r :: t => fold_right (fun x a => Z.min (r_id x) a) (r_id r) t end.
Definition max_id (l : list crow) : Z :=
  match l with [] => (-1)%Z | r :: t => fold_right (fun x a => Z.max (r_id x) a) (r_id r) t end.
Definition last_id (l : list crow) : Z := match last_row l with Some q => r_id q | None => (-1)%Z end.

Definition lmeasv := (Z * Z * Z * Z * Z)%type.
Definition lmeas (seg : list crow) (w : list N) (x : N) : lmeasv :=
  let xs := rows_of x (combine seg w) in
  (cnt_rows xs, sum_v xs, min_id xs, max_id xs, last_id xs).

Definition lmeasv_eqb (a b : lmeasv) : bool :=
  let '(a1, a2, a3, a4, a5) := a in let '(b1, b2, b3, b4, b5) := b in
  Z.eqb a1 b1 && Z.eqb a2 b2 && Z.eqb a3 b3 && Z.eqb a4 b4 && Z.eqb a5 b5.

(* the observed CLASSIFIER() of the last row and the observed per-variable measures (variables
   0,1,2,.. in order) are those of the classification [w] *)
Fixpoint lmeas_all (seg : list crow) (w : list N) (x : N) (obs : list lmeasv) : bool :=
  match obs with
  | [] => true
  | o :: t => lmeasv_eqb o (lmeas seg w x) && lmeas_all seg w (N.succ x) t
  end.
Definition lmeas_ok (seg : list crow) (w : list N) (cl : N) (obs : list lmeasv) : bool :=
  match last (map Some w) None with Some v => N.eqb v cl | None => false end
  && lmeas_all seg w 0%N obs.
