(* Model of the "block" overflow strategy of the counting window's output channel (C09).
   Code anchor: window/counting_window.go sendResult, strategy == OverflowStrategyBlock:
        select { case cw.outputChan <- data:   sentCount++
                 case <-time.After(timeout):   droppedCount++       // the NEW batch is dropped, both AllowDataLoss branches
                 case <-cw.ctx.Done():         return }
   A batch cut by the window is therefore delivered unless the channel stays FULL for a whole BlockTimeout.
   States and steps are those of Model/CountingLag.v (lag_state, LAdd / LTake). A schedule step [LAdd r] that
   finds the channel full stands for "the consumer received nothing for BlockTimeout": the new batch is dropped
   and counted; a consumer that does receive within the timeout is the schedule with that [LTake] placed before
   the [LAdd] (the window goroutine is blocked in the select meanwhile, so nothing else happens in between).
   With room in the channel the send case is ready at once and the timer, which was created by this very
   select, cannot have fired: the batch is enqueued. lg_evicted stays 0 (nothing is removed from the channel). *)
From SV Require Export Model.CountingLag.

(* sendResult, strategy "block" *)
Definition blk_send (cap : nat) (s : lag_state) (b : kbatch) : lag_state :=
  if length (lg_queue s) <? cap
  then mkLag (lg_win s) (lg_queue s ++ [b]) (lg_taken s) (S (lg_sent s)) (lg_dropped s) (lg_evicted s)
  else mkLag (lg_win s) (lg_queue s) (lg_taken s) (lg_sent s) (S (lg_dropped s)) (lg_evicted s).

Definition blk_do (key : krow -> bytes) (n cap : nat) (s : lag_state) (x : lag_step) : lag_state :=
  match x with
  | LAdd r =>
      let (w, o) := cw_add key n (lg_win s) r in
      fold_left (blk_send cap) o
        (mkLag w (lg_queue s) (lg_taken s) (lg_sent s) (lg_dropped s) (lg_evicted s))
  | LTake =>
      match lg_queue s with
      | [] => s
      | b :: q => mkLag (lg_win s) q (lg_taken s ++ [b]) (lg_sent s) (lg_dropped s) (lg_evicted s)
      end
  end.

Definition blk_run (key : krow -> bytes) (n cap : nat) (sched : list lag_step) : lag_state :=
  fold_left (blk_do key n cap) sched lag_init.

(* the schedules the harness realises (harness/c09block.go): an episode adds rows while nobody receives, then the
   consumer receives [takes] batches (those that wait; a receive on an empty channel is no step) *)
Definition blk_episode (rows : list krow) (takes : nat) : list lag_step :=
  map LAdd rows ++ repeat LTake takes.

(* a consumer that receives every batch at once: an LTake after every LAdd *)
Definition blk_prompt (rows : list krow) : list lag_step :=
  flat_map (fun r => [LAdd r; LTake]) rows.
