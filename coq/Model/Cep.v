(* C15 — MATCH_RECOGNIZE. Executable definitions only (proofs: Proofs/CepProofs.v).

   Spec level of DESIGN section 5/C15: the pattern language and a reference matcher by Brzozowski
   derivatives that is driven by the rows' DEFINE classification. The Go NFA engine
   (cep/pattern.go Compile, cep/engine.go step/advance/emitGreedy/skipTo/Flush) is compared with
   this reference on generated cases through SQL; its Thompson construction is not modelled.

   Go anchors that fix the semantics below:
   * types/match_recognize.go PatternNode, Quantifier; cep/pattern.go compileRepeat
     ({n,m} = n copies then m-n optional copies, {n,} = n copies then a star), compilePermute
     (alternation of all orders)                                         -> [spat], [desugar]
   * cep/engine.go advance/evalDefine: a row is consumed by variable X iff X's DEFINE holds for the
     candidate row with the match so far as history (PREV = previous row of the match, NULL for the
     first row; a NULL comparison is not true); no DEFINE = always true  -> [sat]
   * cep/engine.go withinOk: a run is dropped by the first row with ts - startTs > WITHIN -> [longest]
   * cep/engine.go ingestPending/emitGreedy: per start the longest completion; starts leftmost
     first; emitOne/skipTo: next allowed start                            -> [cep_scan], [skip_to]
   * cep/engine.go Flush at Stop: the stream is finite; a run that is accepting at the end counts
   * empty matches are never reported (project returns nil for zero rows) -> lengths are >= 1
   * partition.matchNo counts per partition                               -> [cep_number] *)
From Coq Require Import List ZArith NArith Bool Arith.
Import ListNotations.

(* ------------------------------------------------------------------ patterns *)
Inductive pat :=
| PEmpty                      (* no word; only produced by derivatives *)
| PEps
| PLit (v : N)                (* pattern variable *)
| PSeq (p q : pat)
| PAlt (p q : pat)
| PStar (p : pat).

(* surface syntax = types.PatternNode (groups are transparent, cep/pattern.go compileNode) *)
Inductive spat :=
| SLit (v : N)
| SSeq (p q : spat)
| SAlt (p q : spat)
| SRep (mn : nat) (mx : option nat) (p : spat)   (* ? {0,1}  * {0,}  + {1,}  {n} {n,m} {n,} *)
| SPermute (l : list spat).

Fixpoint seq_n (n : nat) (c tail : pat) : pat :=
  match n with O => tail | S k => PSeq c (seq_n k c tail) end.
Definition popt (c : pat) : pat := PAlt c PEps.

(* all interleavings of x into l, then all permutations (cep/pattern.go permutations) *)
Fixpoint inserts {A} (x : A) (l : list A) : list (list A) :=
  match l with
  | [] => [[x]]
  | y :: r => (x :: l) :: map (cons y) (inserts x r)
  end.
Fixpoint perms {A} (l : list A) : list (list A) :=
  match l with
  | [] => [[]]
  | x :: r => flat_map (inserts x) (perms r)
  end.
Definition seq_list (l : list pat) : pat := fold_right PSeq PEps l.
Definition alt_list (l : list pat) : pat := fold_right PAlt PEmpty l.

Fixpoint desugar (s : spat) : pat :=
  match s with
  | SLit v => PLit v
  | SSeq p q => PSeq (desugar p) (desugar q)
  | SAlt p q => PAlt (desugar p) (desugar q)
  | SRep mn mx p =>
      let c := desugar p in
      match mx with
      | None => seq_n mn c (PStar c)
      | Some m => if Nat.ltb m mn then PEmpty (* rejected by compileRepeat *)
                  else seq_n mn c (seq_n (m - mn) (popt c) PEps)
      end
  | SPermute l => alt_list (map seq_list (perms (map desugar l)))
  end.

(* ------------------------------------------------------------------ derivatives *)
Fixpoint nullable (p : pat) : bool :=
  match p with
  | PEmpty => false | PEps => true | PLit _ => false
  | PSeq p q => nullable p && nullable q
  | PAlt p q => nullable p || nullable q
  | PStar _ => true
  end.

Definition mk_seq (p q : pat) : pat :=
  match p with
  | PEmpty => PEmpty
  | PEps => q
  | _ => match q with PEmpty => PEmpty | _ => PSeq p q end
  end.
Definition mk_alt (p q : pat) : pat :=
  match p with
  | PEmpty => q
  | _ => match q with PEmpty => p | _ => PAlt p q end
  end.

(* derivative with respect to a row, given as the set [f] of the variables whose DEFINE it satisfies *)
Fixpoint deriv (f : N -> bool) (p : pat) : pat :=
  match p with
  | PEmpty => PEmpty
  | PEps => PEmpty
  | PLit v => if f v then PEps else PEmpty
  | PSeq p q => mk_alt (mk_seq (deriv f p) q) (if nullable p then deriv f q else PEmpty)
  | PAlt p q => mk_alt (deriv f p) (deriv f q)
  | PStar p => mk_seq (deriv f p) (PStar p)
  end.

Fixpoint derivs (p : pat) (fs : list (N -> bool)) : pat :=
  match fs with [] => p | f :: r => derivs (deriv f p) r end.

(* ------------------------------------------------------------------ rows, DEFINE *)
(* [r_cls]: the class code of column c: 0..4 = 'a'..'e'; a code >= 5 = the event does not carry the
   column (or carries an explicit NULL). [r_vnull] = true: column v is absent / NULL ([r_v] is then
   meaningless). Events are heterogeneous maps (a heartbeat next to a reading): cep/eval.go
   evalPrepared fills the variable table of ONE evaluation with the columns the CURRENT row has; a
   column it lacks is NULL in that evaluation, whatever earlier rows (of any partition) carried. *)
Record crow := mkCRow { r_id : Z; r_cls : N; r_v : Z; r_ts : Z; r_vnull : bool }.

(* DEFINE of one variable: the row's class is in [d_mask] (bit set), and optionally a comparison
   of column v with PREV(v): d_cmp = 1: v > PREV(v), 2: v < PREV(v), else none *)
Record cdef := mkDef { d_mask : N; d_cmp : N }.

(* the class test (c = 'x' OR c = 'y' ...), x.. = the bits of [mask] among 0..4. d_mask = 31 stands
   for "no class test in the DEFINE" (true of every row, also of one without column c); any written
   test is NULL = not true on a row without column c (class code >= 5 has no bit in a mask < 31) *)
Definition cls_ok (mask cls : N) : bool := N.eqb mask 31 || N.testbit mask cls.

(* a comparison with NULL (v absent in the candidate row, or in the previous row of the run) is not true *)
Definition cmp_ok (c : N) (prev : option crow) (r : crow) : bool :=
  match c with
  | 1%N => match prev with None => false
           | Some q => negb (r_vnull q) && negb (r_vnull r) && Z.ltb (r_v q) (r_v r) end
  | 2%N => match prev with None => false
           | Some q => negb (r_vnull q) && negb (r_vnull r) && Z.ltb (r_v r) (r_v q) end
  | _ => true
  end.

(* variables beyond the DEFINE list have no condition: always true *)
Definition sat (defs : list cdef) (prev : option crow) (r : crow) (v : N) : bool :=
  match nth_error defs (N.to_nat v) with
  | None => true
  | Some d => cls_ok (d_mask d) (r_cls r) && cmp_ok (d_cmp d) prev r
  end.

(* the classification of a run of rows: one predicate per row *)
Fixpoint preds (defs : list cdef) (prev : option crow) (l : list crow) : list (N -> bool) :=
  match l with
  | [] => []
  | r :: t => sat defs prev r :: preds defs (Some r) t
  end.

Inductive skipmode := SkPast | SkNext | SkFirst (v : N) | SkLast (v : N).

Record ccfg := mkCfg { c_pat : pat; c_defs : list cdef; c_skip : skipmode; c_within : Z }.

(* ------------------------------------------------------------------ longest match at a start *)
(* [l]: the rows not yet consumed, [p]: derivative by the rows consumed so far, [len] their number,
   [best]: longest accepted length so far. A row with ts - t0 > WITHIN ends the run. *)
Fixpoint longest (c : ccfg) (t0 : Z) (p : pat) (prev : option crow) (l : list crow)
         (len : nat) (best : option nat) : option nat :=
  match l with
  | [] => best
  | r :: t =>
      if negb (Z.leb (r_ts r - t0) (c_within c)) then best
      else
        let p' := deriv (sat (c_defs c) prev r) p in
        let best' := if nullable p' then Some (S len) else best in
        longest c t0 p' (Some r) t (S len) best'
  end.

Definition longest_at (c : ccfg) (l : list crow) : option nat :=
  match l with
  | [] => None
  | r :: _ => longest c (r_ts r) (c_pat c) None l 0 None
  end.

(* ------------------------------------------------------------------ AFTER MATCH SKIP *)
(* offset (within the match) of the first / last row that satisfies variable v's DEFINE *)
Fixpoint first_sat (defs : list cdef) (v : N) (prev : option crow) (l : list crow) (i : nat) : option nat :=
  match l with
  | [] => None
  | r :: t => if sat defs prev r v then Some i else first_sat defs v (Some r) t (S i)
  end.
Fixpoint last_sat (defs : list cdef) (v : N) (prev : option crow) (l : list crow) (i : nat) (acc : option nat) : option nat :=
  match l with
  | [] => acc
  | r :: t => last_sat defs v (Some r) t (S i) (if sat defs prev r v then Some i else acc)
  end.

(* cep/engine.go skipTo: next allowed start after the match of [k] rows at [pos] ([seg] = its rows).
   SKIP TO FIRST/LAST X resumes after X's row; without such a row, after the last row. The row
   labelled X is taken to be the row that satisfies X's DEFINE: exact when X's DEFINE excludes the
   other variables' (the only configurations in which this mode is compared). *)
Definition skip_to (c : ccfg) (pos k : nat) (seg : list crow) : nat :=
  match c_skip c with
  | SkPast => pos + k
  | SkNext => S pos
  | SkFirst v => match first_sat (c_defs c) v None seg 0 with Some i => S (pos + i) | None => pos + k end
  | SkLast v => match last_sat (c_defs c) v None seg 0 None with Some i => S (pos + i) | None => pos + k end
  end.

(* ------------------------------------------------------------------ the reference matcher *)
(* [l] = the partition's rows from position [pos] on; a start is allowed iff pos >= next *)
Fixpoint cep_scan (c : ccfg) (pos next : nat) (l : list crow) : list (nat * nat) :=
  match l with
  | [] => []
  | r :: t =>
      if Nat.ltb pos next then cep_scan c (S pos) next t
      else match longest_at c l with
           | None => cep_scan c (S pos) next t
           | Some k => (pos, k) :: cep_scan c (S pos) (skip_to c pos k (firstn k l)) t
           end
  end.

Definition ref_matches (c : ccfg) (rows : list crow) : list (nat * nat) := cep_scan c 0 0 rows.

(* MATCH_NUMBER: 1, 2, 3, ... in the order of the matches of one partition *)
Definition cep_number {A} (l : list A) : list (nat * A) := combine (seq 1 (length l)) l.

(* observable of one match: (MATCH_NUMBER, FIRST(id), LAST(id), COUNT( * )) *)
Definition id_at (rows : list crow) (i : nat) : Z := match nth_error rows i with Some r => r_id r | None => (-1)%Z end.
Definition cobs := (nat * Z * Z * nat)%type.
Definition obs_of (rows : list crow) (m : nat * (nat * nat)) : cobs :=
  let '(mn, (pos, k)) := m in (mn, id_at rows pos, id_at rows (pos + k - 1), k).
Definition ref_obs (c : ccfg) (rows : list crow) : list cobs := map (obs_of rows) (cep_number (ref_matches c rows)).

(* MEASURES c AS bc, v AS bv (bare columns, ONE ROW PER MATCH): cep/engine.go evalMeasures evaluates
   them on the LAST row of the match; a column that row lacks is NULL. Observable: the class code
   (5 = NULL) and v (None = NULL). *)
Definition bare_of (r : crow) : N * option Z :=
  (if N.ltb (r_cls r) 5 then r_cls r else 5%N, if r_vnull r then None else Some (r_v r)).
Definition bare_obs (seg : list crow) : option (N * option Z) :=
  match rev seg with [] => None | r :: _ => Some (bare_of r) end.

(* ------------------------------------------------------------------ partitions *)
Definition cstream := list (N * crow).
Definition part_rows (p : N) (s : cstream) : list crow := map snd (filter (fun x => N.eqb (fst x) p) s).
Definition ref_part (c : ccfg) (s : cstream) (p : N) : list cobs := ref_obs c (part_rows p s).
