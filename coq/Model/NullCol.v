(* Model of IS [NOT] NULL applied to a NAMED column of a row, and of the textual
   IS [NOT] NULL rewrite for a simple operand.
   Code anchors (rulego/streamsql):
     functions/expr_bridge.go  ExprBridge.PreprocessIsNullExpression
        `<name> IS NOT NULL` -> `<name> != nil`,  `<name> IS NULL` -> `<name> == nil`
        (the operator is chosen by the keywords alone; the operand is copied verbatim)
     expr-lang  `<name> == nil` over a map environment: a missing key reads as nil
     expr/evaluator.go  evaluateIsOperator (CASE path): same truth table
   A row is the list of its (column name, cell) bindings; a cell is NULL (None) or a value
   (Some rendering).  Column names are byte strings and are compared byte by byte
   (Go map keys): `note`, `NOTE` and `Note` are three different columns. *)
From SV Require Export Base.Bytes Model.Like.

Definition c13_row := list (bytes * option bytes).

Fixpoint c13_lookup (n : bytes) (r : c13_row) : presence :=
  match r with
  | [] => Absent
  | (k, c) :: r' =>
      if bytes_eqb k n then (match c with None => Null | Some _ => Present end)
      else c13_lookup n r'
  end.

Definition col_is_null (n : bytes) (r : c13_row) : bool := is_null (c13_lookup n r).
Definition col_is_not_null (n : bytes) (r : c13_row) : bool := is_not_null (c13_lookup n r).

(* the rewritten predicate: a comparison of the named column with nil *)
Inductive c13_nilcmp := NilEq (n : bytes) | NilNe (n : bytes).

(* PreprocessIsNullExpression on `<name> IS [NOT] NULL`: [neg] = the keyword NOT is there *)
Definition isnull_rewrite (neg : bool) (n : bytes) : c13_nilcmp :=
  if neg then NilNe n else NilEq n.

(* expr-lang on the rewritten text *)
Definition eval_nilcmp (c : c13_nilcmp) (r : c13_row) : bool :=
  match c with
  | NilEq n => match c13_lookup n r with Present => false | _ => true end
  | NilNe n => match c13_lookup n r with Present => true | _ => false end
  end.

(* the answer of the engine for `<name> IS [NOT] NULL` on a row, through the rewrite *)
Definition sql_is_null_pred (neg : bool) (n : bytes) (r : c13_row) : bool :=
  eval_nilcmp (isnull_rewrite neg n) r.

(* ---- IS [NOT] NULL inside a CASE that is the ARGUMENT of an aggregate of a window query ----
   Code anchors: aggregator/group_aggregator.go GroupAggregator.Add (the branch with an expression
   evaluator: the expression is evaluated on EVERY row of the window, also on a row that has none of
   the columns it reads), expr/evaluator.go evaluateIsOperator (absent column = NULL), then the
   aggregate (sum / max / min) folds the per-row values.
   `CASE WHEN <name> IS [NOT] NULL THEN 1 ELSE 0 END` is a 0/1 flag that is never NULL. *)
Definition c13_flag (neg : bool) (n : bytes) (r : c13_row) : N :=
  if sql_is_null_pred neg n r then 1%N else 0%N.

Definition c13_sum_flags (neg : bool) (n : bytes) (rows : list c13_row) : N :=
  fold_right (fun r acc => (c13_flag neg n r + acc)%N) 0%N rows.

Definition c13_max_flags (neg : bool) (n : bytes) (rows : list c13_row) : N :=
  fold_right (fun r acc => N.max (c13_flag neg n r) acc) 0%N rows.

(* min over a non-empty window (1 is the neutral element for 0/1 flags) *)
Definition c13_min_flags (neg : bool) (n : bytes) (rows : list c13_row) : N :=
  fold_right (fun r acc => N.min (c13_flag neg n r) acc) 1%N rows.

(* the checker clause: the two sums partition the rows of the window *)
Definition c13_partition_ok (nulls notnulls total : N) : bool := N.eqb (nulls + notnulls) total.
