(* Model of IS [NOT] NULL applied to a NAMED column of a row, and of the textual
   IS [NOT] NULL rewrite for a simple operand.
   Code anchors (rulego/streamsql):
     functions/expr_bridge.go  ExprBridge.PreprocessIsNullExpression
        `<name> IS NOT NULL` -> `<name> != nil`,  `<name> IS NULL` -> `<name> == nil`
        (the operator is chosen by the keywords alone; the operand is copied verbatim)
     expr-lang  `<name> == nil` over a map environment: a missing key reads as nil
     expr/evaluator.go  evaluateIsOperator (CASE path): same truth table
   A row is the list of its (column name, cell) bindings; a cell is NULL (None) or a value
   (Some rendering).  Column names are byte strings and are compared byte by byte
   (Go map keys): `note`, `NOTE` and `Note` are three different columns. *)
From SV Require Export Base.Bytes Model.Like.

Definition c13_row := list (bytes * option bytes).

Fixpoint c13_lookup (n : bytes) (r : c13_row) : presence :=
  match r with
  | [] => Absent
  | (k, c) :: r' =>
      if bytes_eqb k n then (match c with None => Null | Some _ => Present end)
      else c13_lookup n r'
  end.

Definition col_is_null (n : bytes) (r : c13_row) : bool := is_null (c13_lookup n r).
Definition col_is_not_null (n : bytes) (r : c13_row) : bool := is_not_null (c13_lookup n r).

(* the rewritten predicate: a comparison of the named column with nil *)
Inductive c13_nilcmp := NilEq (n : bytes) | NilNe (n : bytes).

(* PreprocessIsNullExpression on `<name> IS [NOT] NULL`: [neg] = the keyword NOT is there *)
Definition isnull_rewrite (neg : bool) (n : bytes) : c13_nilcmp :=
  if neg then NilNe n else NilEq n.

(* expr-lang on the rewritten text *)
Definition eval_nilcmp (c : c13_nilcmp) (r : c13_row) : bool :=
  match c with
  | NilEq n => match c13_lookup n r with Present => false | _ => true end
  | NilNe n => match c13_lookup n r with Present => true | _ => false end
  end.

(* the answer of the engine for `<name> IS [NOT] NULL` on a row, through the rewrite *)
Definition sql_is_null_pred (neg : bool) (n : bytes) (r : c13_row) : bool :=
  eval_nilcmp (isnull_rewrite neg n) r.
