(* C19 — model of the ingest path of a Stream: producers calling Emit, the single consumer goroutine
   (DataProcessor.Process) and the buffer expansion (expandDataChannel), as a transition system whose
   steps are the critical sections of the Go code. A schedule is a list of steps chosen by an adversary.

   Go anchors:
     stream/stream.go        Emit                      -> IgEm
     stream/handler_data.go  safeSendToDataChan        -> IgSd     (non-blocking send under the read lock)
                             safeGetDataChan           -> IgGr
                             expandDataChannel         -> IgXb (CAS on s.expanding), IgXr (capacity/length read,
                                                          decision, new capacity), IgXl (write lock), IgMg (one row
                                                          migrated), IgMt1/IgMt2 (the two 5 s timeout exits),
                                                          IgSw (publish the new channel, unlock)
     stream/strategy.go      Drop/Blocking/Expansion.ProcessData -> the producer program counters below
     stream/processor_data.go Process                  -> IgLd (read lock, load s.dataChan), IgRc (receive),
                                                          IgTk (ticker case)
   Assumed, not modelled: Go channel semantics (bounded FIFO), sync.RWMutex (writer excludes readers),
   timers fire at arbitrary moments (a timeout step is always enabled where the code selects on a timer).
   Stop is C18's subject: the stream is not stopped during a run.

   ig_locked_recv = true is the code after the repair (the consumer keeps the read lock from loading the
   reference until its select returns); false is the code as found (RUnlock right after the load). *)
From Coq Require Import List Arith Bool PeanoNat ZArith.
Import ListNotations.

Definition igid := (nat * nat)%type.       (* producer index, sequence number of the row *)

Inductive igstrat := IgDrop | IgBlock | IgBlockTO | IgExpand.

(* Which of the producer programs a configuration selects.
   stream/stream_factory.go setupDataProcessingStrategy: OverflowConfig.Strategy names the strategy object;
   stream/strategy.go BlockingStrategy.ProcessData: `if bs.stream.blockingTimeout <= 0` takes the select
   without a timer (IgBlock: no IgTo step), every other value arms time.NewTimer(blockingTimeout) (IgBlockTO).
   The boundary matters: BlockTimeout = 0 is the documented "no timeout" value and negative durations are
   accepted by the configuration as well; both must block until there is room. *)
Inductive igname := IgNDrop | IgNBlock | IgNExpand.
Definition ig_strat_of (nm : igname) (block_timeout_ns : Z) : igstrat :=
  match nm with
  | IgNDrop => IgDrop
  | IgNExpand => IgExpand
  | IgNBlock => if (block_timeout_ns <=? 0)%Z then IgBlock else IgBlockTO
  end.

Record igcfg := {
  ig_strat : igstrat;
  ig_cap0 : nat;          (* BufferConfig.DataChannelSize *)
  ig_max : nat;           (* BufferConfig.MaxBufferSize, 0 = no ceiling *)
  ig_mininc : nat;        (* ExpansionConfig.MinIncrement *)
  ig_gnum : nat; ig_gden : nat;   (* ExpansionConfig.GrowthFactor = gnum/gden *)
  ig_tnum : nat; ig_tden : nat;   (* ExpansionConfig.TriggerThreshold = tnum/tden *)
  ig_locked_recv : bool
}.

(* expandDataChannel: the decision between the RUnlock and the write lock. None = return without expanding *)
Definition ig_newcap (c : igcfg) (oldcap len : nat) : option nat :=
  if oldcap =? 0 then None
  else if (0 <? ig_max c) && (ig_max c <=? oldcap) then None
  else
    let '(tn, td) := if ig_tnum c =? 0 then (4, 5) else (ig_tnum c, ig_tden c) in
    if len * td <? tn * oldcap then None
    else
      let '(gn, gd) := if ig_gnum c <=? ig_gden c then (3, 2) else (ig_gnum c, ig_gden c) in
      let mi := if ig_mininc c =? 0 then 1000 else ig_mininc c in
      let n1 := (oldcap * gn) / gd in
      let n2 := if n1 <? oldcap + mi then oldcap + mi else n1 in
      let n3 := if (0 <? ig_max c) && (ig_max c <? n2) then ig_max c else n2 in
      if n3 <=? oldcap then None else Some n3.

(* where a producer is inside Emit *)
Inductive igpc :=
| IgIdle
| IgTry (stage : nat)        (* about to call safeSendToDataChan. expand: 0 first attempt, 1 after
                                expandDataChannel, 2..4 after the 1st..3rd retry timer; drop: 0 *)
| IgGetRef                   (* drop (after the failed attempt) / block: about to call safeGetDataChan *)
| IgCached (ref tries : nat) (* drop: iteration `tries` of the retry loop, select {send on ref; timer};
                                block: blocked in the send on ref *)
| IgExpBegin                 (* expand: about to CAS s.expanding *)
| IgExpRead                  (* expandDataChannel: about to read cap/len under the read lock *)
| IgExpDecided (nc : nat)    (* new capacity computed, about to take the write lock *)
| IgExpLocked (nc : nat)     (* holds the write lock, migrating *)
| IgWait (i : nat).          (* expand: waiting for the (i+1)-th 100 us retry timer *)

Record igprod := { ig_pc : igpc; ig_started : nat; ig_hand : option igid }.

Record igst := {
  ig_chans : list (nat * list igid);  (* every channel ever made, in creation order: capacity, content (front first) *)
  ig_cur : nat;                       (* index of s.dataChan *)
  ig_cref : option nat;               (* the consumer's currentDataChan *)
  ig_wlock : option nat;              (* dataChanMux is write-locked (by this producer, inside expandDataChannel) *)
  ig_expanding : bool;                (* s.expanding *)
  ig_prods : list igprod;
  ig_processed : list igid;           (* rows that reached processItem, in order *)
  ig_dropped : nat;                   (* input_dropped_count *)
  ig_emitted : nat;                   (* input_count *)
  (* ghost *)
  ig_emitted_ids : list igid;
  ig_dropped_ids : list igid;
  ig_lost_ids : list igid             (* rows lost by the migration timeout *)
}.

Definition ig_init (c : igcfg) (nprod : nat) : igst :=
  {| ig_chans := [(ig_cap0 c, [])]; ig_cur := 0; ig_cref := None; ig_wlock := None; ig_expanding := false;
     ig_prods := repeat {| ig_pc := IgIdle; ig_started := 0; ig_hand := None |} nprod;
     ig_processed := []; ig_dropped := 0; ig_emitted := 0;
     ig_emitted_ids := []; ig_dropped_ids := []; ig_lost_ids := [] |}.

Definition ig_wl (s : igst) : bool := match ig_wlock s with Some _ => true | None => false end.

Inductive igstep :=
| IgEm (p : nat) | IgSd (p : nat) | IgGr (p : nat) | IgCs (p : nat) | IgTo (p : nat)
| IgXb (p : nat) | IgXr (p : nat) | IgXl (p : nat) | IgMg (p : nat) | IgSw (p : nat)
| IgMt1 (p : nat) | IgMt2 (p : nat)
| IgLd | IgRc | IgTk.

Fixpoint ig_upd {A} (n : nat) (x : A) (l : list A) : list A :=
  match l, n with
  | [], _ => []
  | _ :: t, O => x :: t
  | h :: t, S n' => h :: ig_upd n' x t
  end.

(* non-blocking send of x on channel r *)
Definition ig_push (chs : list (nat * list igid)) (r : nat) (x : igid) : option (list (nat * list igid)) :=
  match nth_error chs r with
  | Some (cp, q) => if length q <? cp then Some (ig_upd r (cp, q ++ [x]) chs) else None
  | None => None
  end.
(* receive from channel r *)
Definition ig_pop (chs : list (nat * list igid)) (r : nat) : option (igid * list (nat * list igid)) :=
  match nth_error chs r with
  | Some (cp, x :: q) => Some (x, ig_upd r (cp, q) chs)
  | _ => None
  end.

Definition ig_set_prods (s : igst) (ps : list igprod) : igst :=
  {| ig_chans := ig_chans s; ig_cur := ig_cur s; ig_cref := ig_cref s; ig_wlock := ig_wlock s;
     ig_expanding := ig_expanding s; ig_prods := ps; ig_processed := ig_processed s; ig_dropped := ig_dropped s;
     ig_emitted := ig_emitted s; ig_emitted_ids := ig_emitted_ids s; ig_dropped_ids := ig_dropped_ids s;
     ig_lost_ids := ig_lost_ids s |}.
Definition ig_set_pc (s : igst) (p : nat) (pr : igprod) (pc : igpc) : igst :=
  ig_set_prods s (ig_upd p {| ig_pc := pc; ig_started := ig_started pr; ig_hand := ig_hand pr |} (ig_prods s)).

(* the row in hand was handed over to channel contents chs': Emit returns *)
Definition ig_sent (s : igst) (p : nat) (pr : igprod) (chs' : list (nat * list igid)) : igst :=
  {| ig_chans := chs'; ig_cur := ig_cur s; ig_cref := ig_cref s; ig_wlock := ig_wlock s;
     ig_expanding := ig_expanding s;
     ig_prods := ig_upd p {| ig_pc := IgIdle; ig_started := ig_started pr; ig_hand := None |} (ig_prods s);
     ig_processed := ig_processed s; ig_dropped := ig_dropped s; ig_emitted := ig_emitted s;
     ig_emitted_ids := ig_emitted_ids s; ig_dropped_ids := ig_dropped_ids s; ig_lost_ids := ig_lost_ids s |}.
(* mInputDropped.Inc(); Emit returns *)
Definition ig_drop (s : igst) (p : nat) (pr : igprod) (x : igid) : igst :=
  {| ig_chans := ig_chans s; ig_cur := ig_cur s; ig_cref := ig_cref s; ig_wlock := ig_wlock s;
     ig_expanding := ig_expanding s;
     ig_prods := ig_upd p {| ig_pc := IgIdle; ig_started := ig_started pr; ig_hand := None |} (ig_prods s);
     ig_processed := ig_processed s; ig_dropped := S (ig_dropped s); ig_emitted := ig_emitted s;
     ig_emitted_ids := ig_emitted_ids s; ig_dropped_ids := ig_dropped_ids s ++ [x]; ig_lost_ids := ig_lost_ids s |}.

(* publish the new channel and release the write lock (migration_done:), expandDataChannel returns *)
Definition ig_swap (s : igst) (p : nat) (pr : igprod) (chs' : list (nat * list igid)) (lost : list igid) : igst :=
  {| ig_chans := chs'; ig_cur := S (ig_cur s); ig_cref := ig_cref s; ig_wlock := None; ig_expanding := false;
     ig_prods := ig_upd p {| ig_pc := IgTry 1; ig_started := ig_started pr; ig_hand := ig_hand pr |} (ig_prods s);
     ig_processed := ig_processed s; ig_dropped := ig_dropped s; ig_emitted := ig_emitted s;
     ig_emitted_ids := ig_emitted_ids s; ig_dropped_ids := ig_dropped_ids s; ig_lost_ids := ig_lost_ids s ++ lost |}.

Definition ig_step (c : igcfg) (s : igst) (a : igstep) : option igst :=
  match a with
  | IgEm p =>                                   (* Stream.Emit: mInput.Inc(); dataStrategy.ProcessData(data) *)
      match nth_error (ig_prods s) p with
      | Some pr =>
          match ig_pc pr with
          | IgIdle =>
              let x := (p, ig_started pr) in
              let pc' := match ig_strat c with IgDrop | IgExpand => IgTry 0 | _ => IgGetRef end in
              Some {| ig_chans := ig_chans s; ig_cur := ig_cur s; ig_cref := ig_cref s; ig_wlock := ig_wlock s;
                      ig_expanding := ig_expanding s;
                      ig_prods := ig_upd p {| ig_pc := pc'; ig_started := S (ig_started pr); ig_hand := Some x |} (ig_prods s);
                      ig_processed := ig_processed s; ig_dropped := ig_dropped s; ig_emitted := S (ig_emitted s);
                      ig_emitted_ids := ig_emitted_ids s ++ [x]; ig_dropped_ids := ig_dropped_ids s;
                      ig_lost_ids := ig_lost_ids s |}
          | _ => None
          end
      | None => None
      end
  | IgSd p =>                                   (* safeSendToDataChan: RLock; select {send; default}; RUnlock *)
      match nth_error (ig_prods s) p with
      | Some pr =>
          match ig_pc pr, ig_hand pr with
          | IgTry k, Some x =>
              if ig_wl s then None
              else match ig_push (ig_chans s) (ig_cur s) x with
                   | Some chs' => Some (ig_sent s p pr chs')
                   | None =>
                       match ig_strat c with
                       | IgDrop => Some (ig_set_pc s p pr IgGetRef)
                       | IgExpand =>
                           if k =? 0 then Some (ig_set_pc s p pr IgExpBegin)
                           else if k <? 4 then Some (ig_set_pc s p pr (IgWait (k - 1)))
                           else Some (ig_drop s p pr x)
                       | _ => None
                       end
                   end
          | _, _ => None
          end
      | None => None
      end
  | IgGr p =>                                   (* safeGetDataChan *)
      match nth_error (ig_prods s) p with
      | Some pr =>
          match ig_pc pr with
          | IgGetRef => if ig_wl s then None else Some (ig_set_pc s p pr (IgCached (ig_cur s) 0))
          | _ => None
          end
      | None => None
      end
  | IgCs p =>                                   (* `case dataChan <- data` on the cached reference *)
      match nth_error (ig_prods s) p with
      | Some pr =>
          match ig_pc pr, ig_hand pr with
          | IgCached r _, Some x =>
              match ig_push (ig_chans s) r x with
              | Some chs' => Some (ig_sent s p pr chs')
              | None => None
              end
          | _, _ => None
          end
      | None => None
      end
  | IgTo p =>                                   (* `case <-timer.C` *)
      match nth_error (ig_prods s) p with
      | Some pr =>
          match ig_pc pr, ig_hand pr with
          | IgCached r t, Some x =>
              match ig_strat c with
              | IgDrop => if t <? 2 then Some (ig_set_pc s p pr (IgCached r (S t))) else Some (ig_drop s p pr x)
              | IgBlockTO => Some (ig_drop s p pr x)
              | _ => None
              end
          | IgWait i, _ => Some (ig_set_pc s p pr (IgTry (i + 2)))
          | _, _ => None
          end
      | None => None
      end
  | IgXb p =>                                   (* CompareAndSwapInt32(&s.expanding, 0, 1) *)
      match nth_error (ig_prods s) p with
      | Some pr =>
          match ig_pc pr with
          | IgExpBegin =>
              if ig_expanding s then Some (ig_set_pc s p pr (IgTry 1))
              else Some {| ig_chans := ig_chans s; ig_cur := ig_cur s; ig_cref := ig_cref s; ig_wlock := ig_wlock s;
                           ig_expanding := true;
                           ig_prods := ig_upd p {| ig_pc := IgExpRead; ig_started := ig_started pr; ig_hand := ig_hand pr |} (ig_prods s);
                           ig_processed := ig_processed s; ig_dropped := ig_dropped s; ig_emitted := ig_emitted s;
                           ig_emitted_ids := ig_emitted_ids s; ig_dropped_ids := ig_dropped_ids s;
                           ig_lost_ids := ig_lost_ids s |}
          | _ => None
          end
      | None => None
      end
  | IgXr p =>                                   (* RLock; cap, len; RUnlock; ceiling, threshold, new capacity *)
      match nth_error (ig_prods s) p with
      | Some pr =>
          match ig_pc pr with
          | IgExpRead =>
              if ig_wl s then None
              else match nth_error (ig_chans s) (ig_cur s) with
                   | Some (cp, q) =>
                       match ig_newcap c cp (length q) with
                       | Some nc => Some (ig_set_pc s p pr (IgExpDecided nc))
                       | None =>
                           Some {| ig_chans := ig_chans s; ig_cur := ig_cur s; ig_cref := ig_cref s; ig_wlock := ig_wlock s;
                                   ig_expanding := false;
                                   ig_prods := ig_upd p {| ig_pc := IgTry 1; ig_started := ig_started pr; ig_hand := ig_hand pr |} (ig_prods s);
                                   ig_processed := ig_processed s; ig_dropped := ig_dropped s; ig_emitted := ig_emitted s;
                                   ig_emitted_ids := ig_emitted_ids s; ig_dropped_ids := ig_dropped_ids s;
                                   ig_lost_ids := ig_lost_ids s |}
                       end
                   | None => None
                   end
          | _ => None
          end
      | None => None
      end
  | IgXl p =>                                   (* newChan := make(.., newCap); dataChanMux.Lock() *)
      match nth_error (ig_prods s) p with
      | Some pr =>
          match ig_pc pr with
          | IgExpDecided nc =>
              if ig_wl s then None
              else if ig_locked_recv c && (match ig_cref s with Some _ => true | None => false end) then None
              else Some {| ig_chans := ig_chans s ++ [(nc, [])]; ig_cur := ig_cur s; ig_cref := ig_cref s; ig_wlock := Some p;
                           ig_expanding := ig_expanding s;
                           ig_prods := ig_upd p {| ig_pc := IgExpLocked nc; ig_started := ig_started pr; ig_hand := ig_hand pr |} (ig_prods s);
                           ig_processed := ig_processed s; ig_dropped := ig_dropped s; ig_emitted := ig_emitted s;
                           ig_emitted_ids := ig_emitted_ids s; ig_dropped_ids := ig_dropped_ids s;
                           ig_lost_ids := ig_lost_ids s |}
          | _ => None
          end
      | None => None
      end
  | IgMg p =>                                   (* data := <-oldChan; newChan <- data *)
      match nth_error (ig_prods s) p with
      | Some pr =>
          match ig_pc pr with
          | IgExpLocked nc =>
              match ig_pop (ig_chans s) (ig_cur s) with
              | Some (x, chs1) =>
                  match ig_push chs1 (S (ig_cur s)) x with
                  | Some chs2 =>
                      Some {| ig_chans := chs2; ig_cur := ig_cur s; ig_cref := ig_cref s; ig_wlock := ig_wlock s;
                              ig_expanding := ig_expanding s; ig_prods := ig_prods s;
                              ig_processed := ig_processed s; ig_dropped := ig_dropped s; ig_emitted := ig_emitted s;
                              ig_emitted_ids := ig_emitted_ids s; ig_dropped_ids := ig_dropped_ids s;
                              ig_lost_ids := ig_lost_ids s |}
                  | None => None
                  end
              | None => None
              end
          | _ => None
          end
      | None => None
      end
  | IgMt1 p =>                                  (* data := <-oldChan; `case <-migrationTimeout.C` of the inner select *)
      match nth_error (ig_prods s) p with
      | Some pr =>
          match ig_pc pr with
          | IgExpLocked nc =>
              match ig_pop (ig_chans s) (ig_cur s) with
              | Some (x, chs1) => Some (ig_swap s p pr chs1 [x])
              | None => None
              end
          | _ => None
          end
      | None => None
      end
  | IgMt2 p =>                                  (* `case <-migrationTimeout.C` of the outer select *)
      match nth_error (ig_prods s) p with
      | Some pr =>
          match ig_pc pr with
          | IgExpLocked nc => Some (ig_swap s p pr (ig_chans s) [])
          | _ => None
          end
      | None => None
      end
  | IgSw p =>                                   (* `default:` old channel empty; s.dataChan = newChan; Unlock *)
      match nth_error (ig_prods s) p with
      | Some pr =>
          match ig_pc pr with
          | IgExpLocked nc =>
              match nth_error (ig_chans s) (ig_cur s) with
              | Some (_, []) => Some (ig_swap s p pr (ig_chans s) [])
              | _ => None
              end
          | _ => None
          end
      | None => None
      end
  | IgLd =>                                     (* Process: RLock; currentDataChan := s.dataChan *)
      match ig_cref s with
      | None =>
          if ig_wl s then None
          else Some {| ig_chans := ig_chans s; ig_cur := ig_cur s; ig_cref := Some (ig_cur s); ig_wlock := ig_wlock s;
                       ig_expanding := ig_expanding s; ig_prods := ig_prods s;
                       ig_processed := ig_processed s; ig_dropped := ig_dropped s; ig_emitted := ig_emitted s;
                       ig_emitted_ids := ig_emitted_ids s; ig_dropped_ids := ig_dropped_ids s;
                       ig_lost_ids := ig_lost_ids s |}
      | Some _ => None
      end
  | IgRc =>                                     (* `case data := <-currentDataChan`; processItem(data) *)
      match ig_cref s with
      | Some r =>
          match ig_pop (ig_chans s) r with
          | Some (x, chs') =>
              Some {| ig_chans := chs'; ig_cur := ig_cur s; ig_cref := None; ig_wlock := ig_wlock s;
                      ig_expanding := ig_expanding s; ig_prods := ig_prods s;
                      ig_processed := ig_processed s ++ [x]; ig_dropped := ig_dropped s; ig_emitted := ig_emitted s;
                      ig_emitted_ids := ig_emitted_ids s; ig_dropped_ids := ig_dropped_ids s;
                      ig_lost_ids := ig_lost_ids s |}
          | None => None
          end
      | None => None
      end
  | IgTk =>                                     (* `case <-ticker.C` *)
      match ig_cref s with
      | Some r =>
          Some {| ig_chans := ig_chans s; ig_cur := ig_cur s; ig_cref := None; ig_wlock := ig_wlock s;
                  ig_expanding := ig_expanding s; ig_prods := ig_prods s;
                  ig_processed := ig_processed s; ig_dropped := ig_dropped s; ig_emitted := ig_emitted s;
                  ig_emitted_ids := ig_emitted_ids s; ig_dropped_ids := ig_dropped_ids s;
                  ig_lost_ids := ig_lost_ids s |}
      | None => None
      end
  end.

(* a schedule; None = some step was not enabled *)
Fixpoint ig_run (c : igcfg) (s : igst) (l : list igstep) : option igst :=
  match l with
  | [] => Some s
  | a :: r => match ig_step c s a with Some s' => ig_run c s' r | None => None end
  end.

(* ---- schedules used by the correspondence harness (built from ig_step only) ---- *)

(* producer p runs alone until its Emit returns; a timer fires only when the send is not possible *)
Definition ig_alone_next (s : igst) (p : nat) : list igstep :=
  match nth_error (ig_prods s) p with
  | Some pr =>
      match ig_pc pr with
      | IgIdle => []
      | IgTry _ => [IgSd p]
      | IgGetRef => [IgGr p]
      | IgCached _ _ => [IgCs p; IgTo p]
      | IgExpBegin => [IgXb p]
      | IgExpRead => [IgXr p]
      | IgExpDecided _ => [IgXl p]
      | IgExpLocked _ => [IgMg p; IgSw p]
      | IgWait _ => [IgTo p]
      end
  | None => []
  end.
Fixpoint ig_first (c : igcfg) (s : igst) (l : list igstep) : option igst :=
  match l with
  | [] => None
  | a :: r => match ig_step c s a with Some s' => Some s' | None => ig_first c s r end
  end.
Fixpoint ig_alone (c : igcfg) (fuel : nat) (s : igst) (p : nat) : option igst :=
  match fuel with
  | O => None
  | S f =>
      match ig_alone_next s p with
      | [] => Some s
      | l => match ig_first c s l with Some s' => ig_alone c f s' p | None => None end
      end
  end.
Definition ig_emit_alone (c : igcfg) (fuel : nat) (s : igst) (p : nat) : option igst :=
  match ig_step c s (IgEm p) with Some s' => ig_alone c fuel s' p | None => None end.

(* the consumer runs alone until the current channel is empty *)
Fixpoint ig_drain (c : igcfg) (fuel : nat) (s : igst) : option igst :=
  match fuel with
  | O => None
  | S f =>
      match ig_cref s with
      | Some _ => match ig_step c s IgTk with Some s' => ig_drain c f s' | None => None end
      | None =>
          match nth_error (ig_chans s) (ig_cur s) with
          | Some (_, _ :: _) =>
              match ig_run c s [IgLd; IgRc] with Some s' => ig_drain c f s' | None => None end
          | _ => Some s
          end
      end
  end.

(* observables *)
Definition ig_len (s : igst) : nat := match nth_error (ig_chans s) (ig_cur s) with Some (_, q) => length q | None => 0 end.
Definition ig_cap (s : igst) : nat := match nth_error (ig_chans s) (ig_cur s) with Some (cp, _) => cp | None => 0 end.
