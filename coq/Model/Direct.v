(* C05 — non-aggregate ("direct") queries: one row in, at most one row out.
   Code anchors:
     stream/stream.go            processDirectDataSync (EmitSync), applyWhereAndAnalytic, projectDirectRow
     stream/processor_data.go    Process / processDirectData (Emit: dataChan -> same three steps -> sinks)
     stream/processor_field.go   processSimpleField (column / alias / string literal / * / missing -> NULL),
                                 compileExpressionInfo + processExpressionField (path selection for expressions)
     stream/handler_result.go    callSinksAsync (synchronous sinks run inline, in registration order)
   WHERE is condition.ExprCondition = expr-lang ([Model.Bridge.where_true]); an expression item is
   evaluated by the hand-written engine ([Model.ExprEval]) or by the bridge, chosen from the TEXT of
   the expression ([expr_path]).  Nested paths (a.b[0].c) need map/array values and are not in this
   model (differential check only). *)
From SV Require Export Model.Bridge Model.Sem.

Inductive xitem :=
| IStar                                   (* *            : every field of the row *)
| ICol (src out : bytes)                  (* src [AS out] : the field, NULL when missing *)
| ILit (s out : bytes)                    (* 'text' AS out *)
| IExpr (e : xetop) (out : bytes).        (* expression AS out *)

Record xquery := { q_items : list xitem; q_where : option xexpr }.

(* ---- which evaluator computes an expression item (compileExpressionInfo: textual tests) ---- *)
Definition tok_has (p : xtoken -> bool) (ts : list xtoken) : bool := existsb p ts.
Definition is_paren_tok (t : xtoken) : bool := match t with TLP | TRP => true | _ => false end.
Definition is_quote_tok (t : xtoken) : bool := match t with TStr _ => true | _ => false end.
(* a number literal that is printed with a decimal point *)
Definition is_dot_tok (t : xtoken) : bool :=
  match t with TNum q => negb (Pos.eqb (Qden (Qred q)) 1) | _ => false end.

Inductive xpath := PBridge | PHandOnly | PHandThenBridge | PBridgeThenHand.
Definition expr_path (t : xetop) : xpath :=
  let ts := xprint t in
  let is_case := match t with ECase _ _ _ => true | ETop _ => false end in
  if tok_has is_paren_tok ts && negb is_case then PBridge   (* isFunctionCall: contains "(" and ")", and is not a CASE (fix F25) *)
  else if tok_has is_dot_tok ts then PHandOnly           (* hasNestedFields: contains "." *)
  else if negb (tok_has is_quote_tok ts) then PHandThenBridge   (* compiledExprFastPath *)
  else PBridgeThenHand.

Definition hand_value (row : xrow) (t : xetop) : xout xvalue :=
  match top_value_null row (xelab t) with
  | OVal (v, n) => OVal (if n then VNull else v)
  | OErr => OErr
  | OUnm => OUnm
  end.
(* a SELECT item reaches expr-lang with its SQL spelling (only WHERE is lowered by rsql): "=", "<>",
   AND, OR are not expr-lang syntax, so such an item does not compile there *)
Fixpoint bridge_parses (e : xexpr) : bool :=
  match e with
  | ENum _ | EStr _ | ECol _ => true
  | ENeg x | EParen x => bridge_parses x
  | EBin _ l r => bridge_parses l && bridge_parses r
  | ECmp c l r => match c with CEq | CNe2 => false | _ => bridge_parses l && bridge_parses r end
  | EAnd _ _ | EOr _ _ => false
  | ECall _ args => forallb bridge_parses args
  end.
(* ExprBridge.EvaluateExpression, as far as modelled: plain expressions only (expr-lang has no CASE) *)
Definition bridge_value (row : xrow) (t : xetop) : xout xvalue :=
  match t with
  | ETop e => if bridge_parses e then bridge_eval row e else OErr
  | ECase _ _ _ => OErr
  end.
Definition or_else (a b : xout xvalue) : xout xvalue := match a with OErr => b | _ => a end.
Definition nil_on_err (a : xout xvalue) : option xvalue :=
  match a with OVal v => Some v | OErr => Some VNull | OUnm => None end.

(* processExpressionField; None = outside the model *)
Definition expr_item_value (row : xrow) (t : xetop) : option xvalue :=
  match expr_path t with
  | PBridge => nil_on_err (bridge_value row t)
  | PHandOnly => nil_on_err (hand_value row t)
  | PHandThenBridge => nil_on_err (or_else (hand_value row t) (bridge_value row t))
  | PBridgeThenHand => nil_on_err (or_else (bridge_value row t) (hand_value row t))
  end.

(* ---- projection ---- *)
Definition out_name (i : xitem) : option bytes :=
  match i with IStar => None | ICol _ o | ILit _ o | IExpr _ o => Some o end.

Fixpoint set_field (r : xrow) (k : bytes) (v : xvalue) : xrow :=
  match r with
  | [] => [(k, v)]
  | (k', v') :: r' => if bytes_eqb k k' then (k, v) :: r' else (k', v') :: set_field r' k v
  end.

(* one item written into the result map; None = an expression outside the model *)
Definition project_item (row : xrow) (acc : xrow) (i : xitem) : option xrow :=
  match i with
  | IStar => Some (fold_left (fun a kv => set_field a (fst kv) (snd kv)) row acc)
  | ICol src out => Some (set_field acc out (match xlookup row src with Some v => v | None => VNull end))
  | ILit s out => Some (set_field acc out (VStr s))
  | IExpr t out => match expr_item_value row t with
                   | Some v => Some (set_field acc out v)
                   | None => None
                   end
  end.

Fixpoint project_items (row : xrow) (acc : xrow) (is : list xitem) : option xrow :=
  match is with
  | [] => Some acc
  | i :: is' => match project_item row acc i with
                | Some acc' => project_items row acc' is'
                | None => None
                end
  end.

Definition project (q : xquery) (row : xrow) : option xrow := project_items row [] (q_items q).

Definition where_ok (q : xquery) (row : xrow) : option bool :=
  match q_where q with None => Some true | Some e => where_true row e end.

Inductive xdirect := DNone | DRow (r : xrow) | DUnm.

(* processDirectDataSync: filter, then project *)
Definition direct (q : xquery) (row : xrow) : xdirect :=
  match where_ok q row with
  | None => DUnm
  | Some false => DNone
  | Some true => match project q row with Some r => DRow r | None => DUnm end
  end.

(* ---- the asynchronous path: Emit puts the row on a FIFO (dataChan); one consumer goroutine takes
   rows in order, runs the same three steps and calls the synchronous sinks inline ---- *)
Inductive xop := OpEmit (row : xrow) | OpStep.   (* producer enqueues / consumer handles one row *)

Record xstate := { st_chan : list xrow; st_sink : list xdirect }.   (* sink log, newest last *)

Definition step (q : xquery) (s : xstate) (o : xop) : xstate :=
  match o with
  | OpEmit row => {| st_chan := st_chan s ++ [row]; st_sink := st_sink s |}
  | OpStep => match st_chan s with
              | [] => s
              | row :: rest => {| st_chan := rest; st_sink := st_sink s ++ [direct q row] |}
              end
  end.

Definition run (q : xquery) (ops : list xop) : xstate :=
  fold_left (step q) ops {| st_chan := []; st_sink := [] |}.

Definition emitted (ops : list xop) : list xrow :=
  flat_map (fun o => match o with OpEmit r => [r] | OpStep => [] end) ops.

(* what a sink observes: filtered rows are not delivered *)
Definition delivered (l : list xdirect) : list xdirect :=
  filter (fun d => match d with DNone => false | _ => true end) l.

(* ---- the same path with overflow strategy `expand` (stream/handler_data.go expandDataChannel,
   stream/processor_data.go Process): when the buffer is full the producer takes the WRITE lock of the
   data channel, moves the buffered rows one by one, oldest first, to a larger channel and swaps the
   reference.  The producer's send and the consumer's "load the reference + receive" hold the READ
   lock, so neither happens while a migration is in progress.  [locked] = the consumer's receive is
   covered by that lock (the code as it is); with [locked = false] a consumer that kept an earlier
   reference may still receive from the old channel during the migration. ---- *)
Inductive yop :=
| YEmit (row : xrow)   (* producer: send (under the read lock) *)
| YStep                (* consumer: receive one row, run direct, call the synchronous sinks *)
| YBegin               (* expander: write lock taken, empty new channel *)
| YMove                (* expander: oldest row of the old channel appended to the new one *)
| YSwap.               (* expander: old channel empty -> reference swapped, lock released *)

Record ystate := {
  y_old : list xrow;             (* the channel the reference pointed to when the migration began *)
  y_new : option (list xrow);    (* Some: a migration is in progress *)
  y_acc : list xrow;             (* rows accepted by the channel so far, in emission order *)
  y_sink : list xdirect }.

Definition ystep (locked : bool) (q : xquery) (s : ystate) (o : yop) : ystate :=
  let recv := match y_old s with
              | [] => s
              | row :: rest => {| y_old := rest; y_new := y_new s; y_acc := y_acc s;
                                  y_sink := y_sink s ++ [direct q row] |}
              end in
  match o, y_new s with
  | YEmit row, None => {| y_old := y_old s ++ [row]; y_new := None; y_acc := y_acc s ++ [row]; y_sink := y_sink s |}
  | YStep, None => recv
  | YStep, Some _ => if locked then s else recv
  | YBegin, None => {| y_old := y_old s; y_new := Some []; y_acc := y_acc s; y_sink := y_sink s |}
  | YMove, Some n => match y_old s with
                     | [] => s
                     | row :: rest => {| y_old := rest; y_new := Some (n ++ [row]); y_acc := y_acc s; y_sink := y_sink s |}
                     end
  | YSwap, Some n => match y_old s with
                     | [] => {| y_old := n; y_new := None; y_acc := y_acc s; y_sink := y_sink s |}
                     | _ :: _ => s
                     end
  | _, _ => s   (* blocked by the lock *)
  end.

Definition yinit : ystate := {| y_old := []; y_new := None; y_acc := []; y_sink := [] |}.
Definition yrun (locked : bool) (q : xquery) (ops : list yop) : ystate := fold_left (ystep locked q) ops yinit.
(* rows still buffered, oldest first: migrated rows are older than the ones left in the old channel *)
Definition ypending (s : ystate) : list xrow :=
  match y_new s with Some n => n ++ y_old s | None => y_old s end.
