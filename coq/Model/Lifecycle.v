(* C18 -- lifecycle protocol of stream.Stream as a small-lstep concurrent system.
   Executable definitions only; the proofs are in Proofs/LifecycleProofs.v.

   Go anchors (repository lstate after the three C18 repairs, see [c_fixed_lock] / [c_track_sync] / [c_batch_recover]):
     stream/stream.go          Start, Stop, waitLifecycle, ProcessSync, invokeSinksInline
     stream/handler_result.go  startSinkWorkerPool, callSinksAsync, submitSinkTask, AddSink, AddSyncSink
     stream/processor_data.go  Process, processItem, startWindowProcessing
     stream/lstrategy.go        Drop/Block/Expansion lstrategy ProcessData
     stream/handler_data.go    safeSendToDataChan, safeGetDataChan, expandDataChannel

   Granularity (DESIGN section 3): a critical section that contains no blocking operation and no
   callback is ONE atomic lstep (startMu sections of Start/Stop/ProcessSync, dataChanMux sections of
   safeSendToDataChan / safeGetDataChan / Process / Stop / expandDataChannel, atomic loads).
   sinksMux is different: the code as found ran user asinks while holding its read lock, so this lock
   is modelled with explicit owners ([readers], [writer]) and acquiring it is a lstep that can be
   disabled -- self-deadlock is a reachable stuck lstate of the model with [c_fixed_lock = false].

   A schedule is a list of (lthread index, choice); the choice resolves Go's [select] (which ready
   branch fires), timer expiry, and the adversary's decisions (does this row pass the filter, does it
   panic, does the CEP flush produce rows). A schedule entry whose lstep is not enabled is skipped,
   so "for all schedules" = for all lists. *)
From Coq Require Import List Bool Arith Lia.
Import ListNotations.

Inductive lstrategy := SDrop | SBlock | SExpand.

Record lcfg := {
  c_fixed_lock : bool;   (* true: callSinksAsync snapshots the lsink slices and releases sinksMux before calling (repaired);
                            false: read lock held across submitSinkTask and the synchronous asinks (code as found, F11) *)
  c_track_sync : bool;   (* true: ProcessSync registers with the lifecycle WaitGroup under startMu and refuses when stopped (repaired);
                            false: ProcessSync lcalls the asinks unconditionally (code as found, F18a) *)
  c_batch_recover : bool;(* true: the window-output consumer recovers per batch (repaired); false: only outside its loop,
                            so a panicking batch ends the goroutine (code as found, F18b) *)
  c_window : bool;       (* config.NeedWindow: a window-output consumer goroutine exists *)
  c_cep : bool;          (* MATCH_RECOGNIZE: Stop flushes the engine into the asinks before it returns *)
  c_strategy : lstrategy;
  c_block_timeout : bool;(* BlockTimeout > 0 *)
  c_pool_cap : nat;      (* dcap(sinkWorkerPool) *)
  c_max_cap : nat        (* BufferConfig.MaxBufferSize (expand ceiling) *)
}.

(* what a user lsink does while it runs *)
Inductive lsact :=
| ANop                   (* anything that does not touch the instance (incl. being slow: begin and end are separate steps) *)
| AAddSink (sync : bool) (* lcalls AddSink / AddSyncSink on the same instance, registering a plain lsink *)
| AStats                 (* lcalls GetStats: atomic loads only *)
| APanic.                (* panics *)
Definition lsink := list lsact.

Inductive levent :=
| EStopBegin (t : nat)
| EStopReturn (t : nat) (join : bool)     (* join = false: the 5 s grace expired *)
| ESinkBegin (t : nat) (flush : bool)     (* flush = true: invoked inline by Stop's CEP flush *)
| ESinkEnd (t : nat)
| ESyncBegin (t : nat)
| ESyncEnd (t : nat) (ok : bool)          (* ok = false: refused because the stream is stopped *)
| EProc (id : nat) (panicked : bool)      (* the processor took row id *)
| EEnq (id : nat)                         (* a producer put row id into the data channel *)
| EDropIn (id : nat)                      (* a producer gave up on row id *)
(* the next ones are only produced by the Go harness (never by the model) *)
| ETimeout                                (* some call of the scenario did not return within the harness's patience *)
| EGoroutines (base final : nat)          (* goroutine count before New / after the last Stop returned and the callers were joined *)
| EStopOver (t : nat)                     (* Stop call t has been running for longer than its grace period plus the harness's margin:
                                             it waits for something other than the grace-bounded join (in the model every own step
                                             of a Stop caller is enabled, the join through its grace branch: Props C18_stop_never_waits) *)
| EStopAgainOver (t : nat)                (* Stop call t, made while another Stop call was in progress or after one had returned (a second,
                                             concurrent, repeated or re-entrant Stop: it loses the CAS on `stopped`), had not returned
                                             within the harness's bound: a Stop that is not the first one is a no-op (in the model the
                                             loser returns with three own steps that are enabled in every shared
                                             state and change nothing: Props C18_stop_idempotent, C18_stop_returns_alone) *)
| EEmitOver (t : nat).                    (* Emit call t, parked on a full data channel when Stop was called, was still inside Emit when
                                             the harness's bound after that Stop call had passed, although nothing drained the channel:
                                             it was not released by the shutdown signal (in the model every own step of a producer is
                                             enabled through its `done` branch once done is closed: Props C18_emit_released_by_stop) *)

(* straight-line code of callSinksAsync / invokeSinksInline / AddSink on the current goroutine *)
Inductive linstr :=
| IRLock                     (* s.sinksMux.RLock() *)
| IExpand (flush : bool)     (* read s.sinks, s.syncSinks and build the lcalls; repaired / flush: RUnlock first *)
| IRUnlock
| ISubmit (k : lsink)         (* submitSinkTask(k) *)
| ICall (k : lsink) (flush : bool)  (* k(results) begins on this goroutine *)
| IAct (a : lsact)
| IEnd                       (* k returned, or its panic was recovered by the wrapper *)
| ILock                      (* s.sinksMux.Lock() *)
| IAppend (sync : bool).     (* append; Unlock *)

Inductive lpc :=
(* processor goroutine, preceded by Start's critical section *)
| PrStart | PrInitW | PrLoop | PrSelect | PrBusy | PrExit
(* window-output consumer *)
| CoUnborn | CoLoop | CoBusy | CoExit
(* lsink worker *)
| WkLoop | WkBusy | WkExit
(* a caller of Stop *)
| StBegin | StFlag | StClose | StWindow | StNil | StJoin | StFlush | StFlushing | StReturn (join : bool)
(* a caller of EmitSync *)
| SyBegin | SyBusyT | SyBusyU | SyExit | SyEnd (ok : bool)
(* a caller of AddSink / AddSyncSink / GetStats / TriggerWindow *)
| RgBusy | StatsCall | TrigCall
(* a caller of Emit *)
| PdStart | PdDropGet | PdDropR (n : nat) | PdBlkGet | PdBlkSend
| PdExpTry | PdExpGrow | PdExpTry2 | PdExpW (n : nat) | PdExpT (n : nat)
| LDone.

Record lthread := { t_pc : lpc; t_code : list linstr; t_arg : nat }.

Record lshared := {
  stopped : bool;          (* s.stopped *)
  closed : bool;           (* close(s.done) happened *)
  wstopped : bool;         (* Window.Stop() happened *)
  ptr_nil : bool;          (* s.dataChan == nil *)
  dq : list nat;            (* contents of the data channel object (captured references stay usable after the pointer is nil) *)
  dcap : nat;
  life : nat;              (* s.lifecycle counter *)
  tokens : nat;            (* consumer goroutines created by `go` that have not lrun yet *)
  readers : list nat;      (* owners of sinksMux read locks *)
  writer : option nat;     (* owner of the sinksMux write lock *)
  asinks : list lsink;
  ssinks : list lsink;
  spool : list lsink;        (* queued lsink tasks *)
  wq : nat;                (* batches waiting in Window.OutputChan() *)
  joined : bool            (* ghost: some Stop passed waitLifecycle through the drained branch *)
}.

Record lstate := { sh : lshared; ths : list lthread; ltrace : list levent (* latest first *) }.

(* ---- lshared-lstate updates *)
Definition upd_q (s : lshared) (q' : list nat) : lshared :=
  {| stopped := stopped s; closed := closed s; wstopped := wstopped s; ptr_nil := ptr_nil s; dq := q'; dcap := dcap s;
     life := life s; tokens := tokens s; readers := readers s; writer := writer s; asinks := asinks s; ssinks := ssinks s;
     spool := spool s; wq := wq s; joined := joined s |}.
Definition upd_cap (s : lshared) (c : nat) : lshared :=
  {| stopped := stopped s; closed := closed s; wstopped := wstopped s; ptr_nil := ptr_nil s; dq := dq s; dcap := c;
     life := life s; tokens := tokens s; readers := readers s; writer := writer s; asinks := asinks s; ssinks := ssinks s;
     spool := spool s; wq := wq s; joined := joined s |}.
Definition upd_life (s : lshared) (l t : nat) : lshared :=
  {| stopped := stopped s; closed := closed s; wstopped := wstopped s; ptr_nil := ptr_nil s; dq := dq s; dcap := dcap s;
     life := l; tokens := t; readers := readers s; writer := writer s; asinks := asinks s; ssinks := ssinks s;
     spool := spool s; wq := wq s; joined := joined s |}.
Definition upd_lock (s : lshared) (r : list nat) (w : option nat) : lshared :=
  {| stopped := stopped s; closed := closed s; wstopped := wstopped s; ptr_nil := ptr_nil s; dq := dq s; dcap := dcap s;
     life := life s; tokens := tokens s; readers := r; writer := w; asinks := asinks s; ssinks := ssinks s;
     spool := spool s; wq := wq s; joined := joined s |}.
Definition upd_sinks (s : lshared) (a b : list lsink) : lshared :=
  {| stopped := stopped s; closed := closed s; wstopped := wstopped s; ptr_nil := ptr_nil s; dq := dq s; dcap := dcap s;
     life := life s; tokens := tokens s; readers := readers s; writer := writer s; asinks := a; ssinks := b;
     spool := spool s; wq := wq s; joined := joined s |}.
Definition upd_pool (s : lshared) (p : list lsink) : lshared :=
  {| stopped := stopped s; closed := closed s; wstopped := wstopped s; ptr_nil := ptr_nil s; dq := dq s; dcap := dcap s;
     life := life s; tokens := tokens s; readers := readers s; writer := writer s; asinks := asinks s; ssinks := ssinks s;
     spool := p; wq := wq s; joined := joined s |}.
Definition upd_wq (s : lshared) (n : nat) : lshared :=
  {| stopped := stopped s; closed := closed s; wstopped := wstopped s; ptr_nil := ptr_nil s; dq := dq s; dcap := dcap s;
     life := life s; tokens := tokens s; readers := readers s; writer := writer s; asinks := asinks s; ssinks := ssinks s;
     spool := spool s; wq := n; joined := joined s |}.
(* stop-related flags: stopped, closed, wstopped, ptr_nil, joined *)
Definition upd_flags (s : lshared) (st cl ws pn jn : bool) : lshared :=
  {| stopped := st; closed := cl; wstopped := ws; ptr_nil := pn; dq := dq s; dcap := dcap s;
     life := life s; tokens := tokens s; readers := readers s; writer := writer s; asinks := asinks s; ssinks := ssinks s;
     spool := spool s; wq := wq s; joined := jn |}.

Fixpoint lremove1 (t : nat) (l : list nat) : list nat :=
  match l with [] => [] | x :: r => if Nat.eqb x t then r else x :: lremove1 t r end.

(* the panic unwinds to the wrapper's recover: skip to just before the next IEnd *)
Fixpoint lunwind (c : list linstr) : list linstr :=
  match c with [] => [] | IEnd :: r => IEnd :: r | _ :: r => lunwind r end.

(* handler_result.go callSinksAsync: the lcalls for one result batch, in program order *)
Definition lcalls (s : lshared) (flush : bool) : list linstr :=
  if flush then map (fun k => ICall k true) (asinks s) ++ map (fun k => ICall k true) (ssinks s)
  else map ISubmit (asinks s) ++ map (fun k => ICall k false) (ssinks s).
Definition lcall_sinks : list linstr := [IRLock; IExpand false].
Definition lflush_sinks : list linstr := [IRLock; IExpand true].

Definition lmk (p : lpc) (c : list linstr) (a : nat) : lthread := {| t_pc := p; t_code := c; t_arg := a |}.

(* handler_data.go safeSendToDataChan *)
Definition lsafe_send (s : lshared) (id : nat) : option lshared :=
  if stopped s then None else if ptr_nil s then None
  else if length (dq s) <? dcap s then Some (upd_q s (dq s ++ [id])) else None.
(* a send on a captured channel reference *)
Definition lraw_send (s : lshared) (id : nat) : option lshared :=
  if length (dq s) <? dcap s then Some (upd_q s (dq s ++ [id])) else None.

(* ---- one lstep of the instruction at the head of a thread's code *)
Definition listep (c : lcfg) (tid : nat) (i : linstr) (rest : list linstr) (s : lshared)
  : option (list linstr * lshared * list levent) :=
  match i with
  | IRLock => match writer s with
              | None => Some (rest, upd_lock s (tid :: readers s) None, [])
              | Some _ => None end
  | IExpand fl =>
      if fl || c_fixed_lock c
      then Some (lcalls s fl ++ rest, upd_lock s (lremove1 tid (readers s)) (writer s), [])
      else Some (lcalls s fl ++ IRUnlock :: rest, s, [])
  | IRUnlock => Some (rest, upd_lock s (lremove1 tid (readers s)) (writer s), [])
  | ISubmit k =>
      (* submitSinkTask: spool has room -> queue; else during shutdown drop; else lrun inline *)
      if length (spool s) <? c_pool_cap c then Some (rest, upd_pool s (spool s ++ [k]), [])
      else if closed s then Some (rest, s, [])
      else Some (ICall k false :: rest, s, [])
  | ICall k fl => Some (map IAct k ++ IEnd :: rest, s, [ESinkBegin tid fl])
  | IAct ANop => Some (rest, s, [])
  | IAct AStats => Some (rest, s, [])
  | IAct (AAddSink b) => Some (ILock :: IAppend b :: rest, s, [])
  | IAct APanic => Some (lunwind rest, s, [])
  | IEnd => Some (rest, s, [ESinkEnd tid])
  | ILock => match writer s, readers s with
             | None, [] => Some (rest, upd_lock s [] (Some tid), [])
             | _, _ => None end
  | IAppend b =>
      let s1 := if b then upd_sinks s (asinks s) (ssinks s ++ [[]]) else upd_sinks s (asinks s ++ [[]]) (ssinks s) in
      Some (rest, upd_lock s1 (readers s1) None, [])
  end.

(* ---- one lstep of a lthread whose code is empty: the transition of its lpc.
   [ch] is the adversary's choice. *)
Definition lpstep (c : lcfg) (tid ch : nat) (p : lpc) (a : nat) (s : lshared)
  : option (lpc * list linstr * lshared * list levent) :=
  match p with
  (* stream.go Start: under startMu, stopped -> return; else lifecycle.Add(1 [+1]) *)
  | PrStart => if stopped s then Some (LDone, [], s, [])
               else if c_window c then Some (PrInitW, [], upd_life s (life s + 2) (tokens s), [])
               else Some (PrLoop, [], upd_life s (life s + 1) (tokens s), [])
  (* Process: startWindowProcessing `go func(){ defer lifecycle.Done() ... }` *)
  | PrInitW => Some (PrLoop, [], upd_life s (life s) (tokens s + 1), [])
  (* Process loop head: read dataChan under RLock; nil -> return *)
  | PrLoop => if ptr_nil s then Some (PrExit, [], s, []) else Some (PrSelect, [], s, [])
  (* select { data := <-ch ; <-done ; <-ticker } ; processItem *)
  | PrSelect =>
      match ch with
      | 0 | 1 | 2 =>
          match dq s with
          | [] => None
          | id :: r =>
              match ch with
              | 0 => (* the row produces a result: callSinksAsync *)
                     if c_window c then Some (PrLoop, [], upd_wq (upd_q s r) (wq s + 1), [EProc id false])
                     else Some (PrBusy, lcall_sinks, upd_q s r, [EProc id false])
              | 1 => (* filtered / no match *) Some (PrLoop, [], upd_q s r, [EProc id false])
              | _ => (* panic inside processItem, recovered there *) Some (PrLoop, [], upd_q s r, [EProc id true])
              end
          end
      | 3 => if closed s then Some (PrExit, [], s, []) else None
      | _ => Some (PrLoop, [], s, [])
      end
  | PrBusy => Some (PrLoop, [], s, [])
  | PrExit => Some (LDone, [], upd_life s (life s - 1) (tokens s), [])
  (* window-output consumer (processor_data.go startWindowProcessing) *)
  | CoUnborn => match tokens s with 0 => None | S n => Some (CoLoop, [], upd_life s (life s) n, []) end
  | CoLoop =>
      match ch with
      | 0 => match wq s with 0 => None | S n => Some (CoBusy, lcall_sinks, upd_wq s n, []) end
      | 1 => match wq s with 0 => None | S n => Some (CoLoop, [], upd_wq s n, []) end  (* HAVING/empty result *)
      | 2 => (* processWindowBatch panics *)
             match wq s with 0 => None
             | S n => if c_batch_recover c then Some (CoLoop, [], upd_wq s n, []) else Some (CoExit, [], upd_wq s n, []) end
      | _ => if closed s then Some (CoExit, [], s, []) else None
      end
  | CoBusy => Some (CoLoop, [], s, [])
  | CoExit => Some (LDone, [], upd_life s (life s - 1) (tokens s), [])
  (* handler_result.go startSinkWorkerPool *)
  | WkLoop =>
      match ch with
      | 0 => match spool s with [] => None | k :: r => Some (WkBusy, [ICall k false], upd_pool s r, []) end
      | _ => if closed s then Some (WkExit, [], s, []) else None
      end
  | WkBusy => Some (WkLoop, [], s, [])
  | WkExit => Some (LDone, [], upd_life s (life s - 1) (tokens s), [])
  (* stream.go Stop *)
  | StBegin => Some (StFlag, [], s, [EStopBegin tid])
  | StFlag => if stopped s then Some (StReturn true, [], s, [])   (* already stopped: return directly *)
              else Some (StClose, [], upd_flags s true (closed s) (wstopped s) (ptr_nil s) (joined s), [])
  | StClose => Some (StWindow, [], upd_flags s (stopped s) true (wstopped s) (ptr_nil s) (joined s), [])
  | StWindow => Some (StNil, [], upd_flags s (stopped s) (closed s) true (ptr_nil s) (joined s), [])
  | StNil => Some (StJoin, [], upd_flags s (stopped s) (closed s) (wstopped s) true (joined s), [])
  (* waitLifecycle: drained, or the grace expires *)
  | StJoin =>
      match ch with
      | 0 => match life s with
             | 0 => Some (StFlush, [], upd_flags s (stopped s) (closed s) (wstopped s) (ptr_nil s) true, [])
             | _ => None end
      | 1 => Some (StReturn false, [], s, [])   (* grace: the flush is still attempted in Go; abandoned asinks are outside the barrier *)
      | _ => None
      end
  | StFlush => if c_cep c then (match ch with 0 => Some (StFlushing, lflush_sinks, s, []) | _ => Some (StReturn true, [], s, []) end)
               else Some (StReturn true, [], s, [])
  | StFlushing => Some (StReturn true, [], s, [])
  | StReturn j => Some (LDone, [], s, [EStopReturn tid j])
  (* stream.go ProcessSync -> processDirectDataSync -> callSinksAsync *)
  | SyBegin =>
      if c_track_sync c then
        if stopped s then Some (SyEnd false, [], s, [ESyncBegin tid])
        else match ch with
             | 0 => Some (SyBusyT, lcall_sinks, upd_life s (life s + 1) (tokens s), [ESyncBegin tid])
             | _ => Some (SyExit, [], upd_life s (life s + 1) (tokens s), [ESyncBegin tid])  (* filtered row *)
             end
      else match ch with
           | 0 => Some (SyBusyU, lcall_sinks, s, [ESyncBegin tid])
           | _ => Some (SyEnd true, [], s, [ESyncBegin tid])
           end
  | SyBusyT => Some (SyExit, [], s, [])
  | SyBusyU => Some (SyEnd true, [], s, [])
  | SyExit => Some (SyEnd true, [], upd_life s (life s - 1) (tokens s), [])
  | SyEnd ok => Some (LDone, [], s, [ESyncEnd tid ok])
  | RgBusy => Some (LDone, [], s, [])
  | StatsCall => Some (LDone, [], s, [])
  (* Window.Trigger(): a batch may appear in the window's output channel (also after Stop: nobody reads it) *)
  | TrigCall => match ch with 0 => Some (LDone, [], upd_wq s (wq s + 1), []) | _ => Some (LDone, [], s, []) end
  (* lstrategy.go *)
  | PdStart =>
      match c_strategy c with
      | SDrop => match lsafe_send s a with
                 | Some s' => Some (LDone, [], s', [EEnq a])
                 | None => Some (PdDropGet, [], s, []) end
      | SBlock => if stopped s then Some (LDone, [], s, []) else Some (PdBlkGet, [], s, [])
      | SExpand => if stopped s then Some (LDone, [], s, []) else Some (PdExpTry, [], s, [])
      end
  | PdDropGet => if ptr_nil s then Some (LDone, [], s, []) else Some (PdDropR 3, [], s, [])
  | PdDropR 0 => Some (LDone, [], s, [EDropIn a])
  | PdDropR (S n) =>
      match ch with
      | 0 => match lraw_send s a with Some s' => Some (LDone, [], s', [EEnq a]) | None => None end
      | 1 => Some (PdDropR n, [], s, [])
      | _ => if closed s then Some (LDone, [], s, []) else None
      end
  | PdBlkGet => if ptr_nil s then Some (LDone, [], s, []) else Some (PdBlkSend, [], s, [])
  | PdBlkSend =>
      match ch with
      | 0 => match lraw_send s a with Some s' => Some (LDone, [], s', [EEnq a]) | None => None end
      | 1 => if c_block_timeout c then Some (LDone, [], s, [EDropIn a]) else None
      | _ => if closed s then Some (LDone, [], s, []) else None
      end
  | PdExpTry => match lsafe_send s a with
                | Some s' => Some (LDone, [], s', [EEnq a])
                | None => Some (PdExpGrow, [], s, []) end
  | PdExpGrow => (* expandDataChannel: grows unless at the ceiling / below the threshold *)
      match ch with
      | 0 => if (negb (ptr_nil s)) && (dcap s <? c_max_cap c) then Some (PdExpTry2, [], upd_cap s (c_max_cap c), [])
             else Some (PdExpTry2, [], s, [])
      | _ => Some (PdExpTry2, [], s, [])
      end
  | PdExpTry2 => match lsafe_send s a with
                 | Some s' => Some (LDone, [], s', [EEnq a])
                 | None => Some (PdExpW 3, [], s, []) end
  | PdExpW 0 => Some (LDone, [], s, [EDropIn a])
  | PdExpW (S n) =>
      match ch with
      | 0 => Some (PdExpT (S n), [], s, [])
      | _ => if closed s then Some (LDone, [], s, []) else None
      end
  | PdExpT n => match lsafe_send s a with
                | Some s' => Some (LDone, [], s', [EEnq a])
                | None => Some (PdExpW (pred n), [], s, []) end
  | LDone => None
  end.

Definition ltstep (c : lcfg) (tid ch : nat) (th : lthread) (s : lshared) : option (lthread * lshared * list levent) :=
  match t_code th with
  | i :: rest =>
      match listep c tid i rest s with
      | Some (code', s', ev) => Some (lmk (t_pc th) code' (t_arg th), s', ev)
      | None => None end
  | [] =>
      match lpstep c tid ch (t_pc th) (t_arg th) s with
      | Some (p', code', s', ev) => Some (lmk p' code' (t_arg th), s', ev)
      | None => None end
  end.

Fixpoint lset_nth {A} (n : nat) (x : A) (l : list A) : list A :=
  match l, n with
  | [], _ => []
  | _ :: r, 0 => x :: r
  | y :: r, S m => y :: lset_nth m x r
  end.

Definition lstep (c : lcfg) (tid ch : nat) (st : lstate) : option lstate :=
  match nth_error (ths st) tid with
  | None => None
  | Some th =>
      match ltstep c tid ch th (sh st) with
      | Some (th', s', ev) => Some {| sh := s'; ths := lset_nth tid th' (ths st); ltrace := rev ev ++ ltrace st |}
      | None => None end
  end.

Definition lstep_or_skip (c : lcfg) (st : lstate) (e : nat * nat) : lstate :=
  match lstep c (fst e) (snd e) st with Some st' => st' | None => st end.
Definition lrun (c : lcfg) (sched : list (nat * nat)) (st : lstate) : lstate := fold_left (lstep_or_skip c) sched st.

(* ---- initial states *)
Definition lweight (p : lpc) : nat :=
  match p with
  | PrInitW => 2
  | PrLoop | PrSelect | PrBusy | PrExit | CoLoop | CoBusy | CoExit | WkLoop | WkBusy | WkExit | SyBusyT | SyExit => 1
  | _ => 0
  end.
Fixpoint ltotal_weight (l : list lthread) : nat :=
  match l with [] => 0 | t :: r => lweight (t_pc t) + ltotal_weight r end.

(* roles a test configuration is made of *)
Inductive lrole := RProcessor | RConsumer | RWorker | RStopper | RSync | RAdd (sync : bool) | RStats | RTrigger | RProducer (id : nat).
Definition lspawn (r : lrole) : lthread :=
  match r with
  | RProcessor => lmk PrStart [] 0
  | RConsumer => lmk CoUnborn [] 0
  | RWorker => lmk WkLoop [] 0
  | RStopper => lmk StBegin [] 0
  | RSync => lmk SyBegin [] 0
  | RAdd b => lmk RgBusy [ILock; IAppend b] 0
  | RStats => lmk StatsCall [] 0
  | RTrigger => lmk TrigCall [] 0
  | RProducer id => lmk PdStart [] id
  end.

Definition linit (cap0 : nat) (async sync : list lsink) (roles : list lrole) : lstate :=
  let t := map lspawn roles in
  {| sh := {| stopped := false; closed := false; wstopped := false; ptr_nil := false; dq := []; dcap := cap0;
              life := ltotal_weight t; tokens := 0; readers := []; writer := None;
              asinks := async; ssinks := sync; spool := []; wq := 0; joined := false |};
     ths := t; ltrace := [] |}.

(* ---- enabledness / stuck states *)
Definition lmax_choice : nat := 4.
Definition lenabledb (c : lcfg) (tid : nat) (st : lstate) : bool :=
  existsb (fun ch => match lstep c tid ch st with Some _ => true | None => false end) (seq 0 (S lmax_choice)).
Definition lholdsb (tid : nat) (s : lshared) : bool :=
  existsb (Nat.eqb tid) (readers s) || match writer s with Some w => Nat.eqb w tid | None => false end.
Definition lwaits_lock (th : lthread) : bool :=
  match t_code th with IRLock :: _ | ILock :: _ => true | _ => false end.
(* a lthread waits for sinksMux, cannot get it, and no holder of the lock can move *)
Definition llock_stuckb (c : lcfg) (st : lstate) : bool :=
  existsb (fun tid =>
             match nth_error (ths st) tid with
             | Some th => lwaits_lock th && negb (lenabledb c tid st)
                          && forallb (fun h => negb (lholdsb h (sh st)) || negb (lenabledb c h st)) (seq 0 (length (ths st)))
             | None => false end)
          (seq 0 (length (ths st))).
