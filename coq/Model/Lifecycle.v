(* C18 -- lifecycle protocol of stream.Stream as a small-step concurrent system.
   Executable definitions only; the proofs are in Proofs/LifecycleProofs.v.

   Go anchors (repository state after the three C18 repairs, see [c_fixed_lock] / [c_track_sync] / [c_batch_recover]):
     stream/stream.go          Start, Stop, waitLifecycle, ProcessSync, invokeSinksInline
     stream/handler_result.go  startSinkWorkerPool, callSinksAsync, submitSinkTask, AddSink, AddSyncSink
     stream/processor_data.go  Process, processItem, startWindowProcessing
     stream/strategy.go        Drop/Block/Expansion strategy ProcessData
     stream/handler_data.go    safeSendToDataChan, safeGetDataChan, expandDataChannel

   Granularity (DESIGN section 3): a critical section that contains no blocking operation and no
   callback is ONE atomic step (startMu sections of Start/Stop/ProcessSync, dataChanMux sections of
   safeSendToDataChan / safeGetDataChan / Process / Stop / expandDataChannel, atomic loads).
   sinksMux is different: the code as found ran user sinks while holding its read lock, so this lock
   is modelled with explicit owners ([readers], [writer]) and acquiring it is a step that can be
   disabled -- self-deadlock is a reachable stuck state of the model with [c_fixed_lock = false].

   A schedule is a list of (thread index, choice); the choice resolves Go's [select] (which ready
   branch fires), timer expiry, and the adversary's decisions (does this row pass the filter, does it
   panic, does the CEP flush produce rows). A schedule entry whose step is not enabled is skipped,
   so "for all schedules" = for all lists. *)
From Coq Require Import List Bool Arith Lia.
Import ListNotations.

Inductive strategy := SDrop | SBlock | SExpand.

Record cfg := {
  c_fixed_lock : bool;   (* true: callSinksAsync snapshots the sink slices and releases sinksMux before calling (repaired);
                            false: read lock held across submitSinkTask and the synchronous sinks (code as found, F11) *)
  c_track_sync : bool;   (* true: ProcessSync registers with the lifecycle WaitGroup under startMu and refuses when stopped (repaired);
                            false: ProcessSync calls the sinks unconditionally (code as found, F18a) *)
  c_batch_recover : bool;(* true: the window-output consumer recovers per batch (repaired); false: only outside its loop,
                            so a panicking batch ends the goroutine (code as found, F18b) *)
  c_window : bool;       (* config.NeedWindow: a window-output consumer goroutine exists *)
  c_cep : bool;          (* MATCH_RECOGNIZE: Stop flushes the engine into the sinks before it returns *)
  c_strategy : strategy;
  c_block_timeout : bool;(* BlockTimeout > 0 *)
  c_pool_cap : nat;      (* cap(sinkWorkerPool) *)
  c_max_cap : nat        (* BufferConfig.MaxBufferSize (expand ceiling) *)
}.

(* what a user sink does while it runs *)
Inductive sact :=
| ANop                   (* anything that does not touch the instance (incl. being slow: begin and end are separate steps) *)
| AAddSink (sync : bool) (* calls AddSink / AddSyncSink on the same instance, registering a plain sink *)
| AStats                 (* calls GetStats: atomic loads only *)
| APanic.                (* panics *)
Definition sink := list sact.

Inductive event :=
| EStopBegin (t : nat)
| EStopReturn (t : nat) (join : bool)     (* join = false: the 5 s grace expired *)
| ESinkBegin (t : nat) (flush : bool)     (* flush = true: invoked inline by Stop's CEP flush *)
| ESinkEnd (t : nat)
| ESyncBegin (t : nat)
| ESyncEnd (t : nat) (ok : bool)          (* ok = false: refused because the stream is stopped *)
| EProc (id : nat) (panicked : bool)      (* the processor took row id *)
| EEnq (id : nat)                         (* a producer put row id into the data channel *)
| EDropIn (id : nat)                      (* a producer gave up on row id *)
(* the next two are only produced by the Go harness (never by the model) *)
| ETimeout                                (* some call of the scenario did not return within the harness's patience *)
| EGoroutines (base final : nat).         (* goroutine count before New / after the last Stop returned and the callers were joined *)

(* straight-line code of callSinksAsync / invokeSinksInline / AddSink on the current goroutine *)
Inductive instr :=
| IRLock                     (* s.sinksMux.RLock() *)
| IExpand (flush : bool)     (* read s.sinks, s.syncSinks and build the calls; repaired / flush: RUnlock first *)
| IRUnlock
| ISubmit (k : sink)         (* submitSinkTask(k) *)
| ICall (k : sink) (flush : bool)  (* k(results) begins on this goroutine *)
| IAct (a : sact)
| IEnd                       (* k returned, or its panic was recovered by the wrapper *)
| ILock                      (* s.sinksMux.Lock() *)
| IAppend (sync : bool).     (* append; Unlock *)

Inductive pc :=
(* processor goroutine, preceded by Start's critical section *)
| PrStart | PrInitW | PrLoop | PrSelect | PrBusy | PrExit
(* window-output consumer *)
| CoUnborn | CoLoop | CoBusy | CoExit
(* sink worker *)
| WkLoop | WkBusy | WkExit
(* a caller of Stop *)
| StBegin | StFlag | StClose | StWindow | StNil | StJoin | StFlush | StFlushing | StReturn (join : bool)
(* a caller of EmitSync *)
| SyBegin | SyBusyT | SyBusyU | SyExit | SyEnd (ok : bool)
(* a caller of AddSink / AddSyncSink / GetStats / TriggerWindow *)
| RgBusy | StatsCall | TrigCall
(* a caller of Emit *)
| PdStart | PdDropGet | PdDropR (n : nat) | PdBlkGet | PdBlkSend
| PdExpTry | PdExpGrow | PdExpTry2 | PdExpW (n : nat) | PdExpT (n : nat)
| Done.

Record thread := { t_pc : pc; t_code : list instr; t_arg : nat }.

Record shared := {
  stopped : bool;          (* s.stopped *)
  closed : bool;           (* close(s.done) happened *)
  wstopped : bool;         (* Window.Stop() happened *)
  ptr_nil : bool;          (* s.dataChan == nil *)
  q : list nat;            (* contents of the data channel object (captured references stay usable after the pointer is nil) *)
  cap : nat;
  life : nat;              (* s.lifecycle counter *)
  tokens : nat;            (* consumer goroutines created by `go` that have not run yet *)
  readers : list nat;      (* owners of sinksMux read locks *)
  writer : option nat;     (* owner of the sinksMux write lock *)
  sinks : list sink;
  ssinks : list sink;
  pool : list sink;        (* queued sink tasks *)
  wq : nat;                (* batches waiting in Window.OutputChan() *)
  joined : bool            (* ghost: some Stop passed waitLifecycle through the drained branch *)
}.

Record state := { sh : shared; ths : list thread; trace : list event (* latest first *) }.

(* ---- shared-state updates *)
Definition upd_q (s : shared) (q' : list nat) : shared :=
  {| stopped := stopped s; closed := closed s; wstopped := wstopped s; ptr_nil := ptr_nil s; q := q'; cap := cap s;
     life := life s; tokens := tokens s; readers := readers s; writer := writer s; sinks := sinks s; ssinks := ssinks s;
     pool := pool s; wq := wq s; joined := joined s |}.
Definition upd_cap (s : shared) (c : nat) : shared :=
  {| stopped := stopped s; closed := closed s; wstopped := wstopped s; ptr_nil := ptr_nil s; q := q s; cap := c;
     life := life s; tokens := tokens s; readers := readers s; writer := writer s; sinks := sinks s; ssinks := ssinks s;
     pool := pool s; wq := wq s; joined := joined s |}.
Definition upd_life (s : shared) (l t : nat) : shared :=
  {| stopped := stopped s; closed := closed s; wstopped := wstopped s; ptr_nil := ptr_nil s; q := q s; cap := cap s;
     life := l; tokens := t; readers := readers s; writer := writer s; sinks := sinks s; ssinks := ssinks s;
     pool := pool s; wq := wq s; joined := joined s |}.
Definition upd_lock (s : shared) (r : list nat) (w : option nat) : shared :=
  {| stopped := stopped s; closed := closed s; wstopped := wstopped s; ptr_nil := ptr_nil s; q := q s; cap := cap s;
     life := life s; tokens := tokens s; readers := r; writer := w; sinks := sinks s; ssinks := ssinks s;
     pool := pool s; wq := wq s; joined := joined s |}.
Definition upd_sinks (s : shared) (a b : list sink) : shared :=
  {| stopped := stopped s; closed := closed s; wstopped := wstopped s; ptr_nil := ptr_nil s; q := q s; cap := cap s;
     life := life s; tokens := tokens s; readers := readers s; writer := writer s; sinks := a; ssinks := b;
     pool := pool s; wq := wq s; joined := joined s |}.
Definition upd_pool (s : shared) (p : list sink) : shared :=
  {| stopped := stopped s; closed := closed s; wstopped := wstopped s; ptr_nil := ptr_nil s; q := q s; cap := cap s;
     life := life s; tokens := tokens s; readers := readers s; writer := writer s; sinks := sinks s; ssinks := ssinks s;
     pool := p; wq := wq s; joined := joined s |}.
Definition upd_wq (s : shared) (n : nat) : shared :=
  {| stopped := stopped s; closed := closed s; wstopped := wstopped s; ptr_nil := ptr_nil s; q := q s; cap := cap s;
     life := life s; tokens := tokens s; readers := readers s; writer := writer s; sinks := sinks s; ssinks := ssinks s;
     pool := pool s; wq := n; joined := joined s |}.
(* stop-related flags: stopped, closed, wstopped, ptr_nil, joined *)
Definition upd_flags (s : shared) (st cl ws pn jn : bool) : shared :=
  {| stopped := st; closed := cl; wstopped := ws; ptr_nil := pn; q := q s; cap := cap s;
     life := life s; tokens := tokens s; readers := readers s; writer := writer s; sinks := sinks s; ssinks := ssinks s;
     pool := pool s; wq := wq s; joined := jn |}.

Fixpoint remove1 (t : nat) (l : list nat) : list nat :=
  match l with [] => [] | x :: r => if Nat.eqb x t then r else x :: remove1 t r end.

(* the panic unwinds to the wrapper's recover: skip to just before the next IEnd *)
Fixpoint unwind (c : list instr) : list instr :=
  match c with [] => [] | IEnd :: r => IEnd :: r | _ :: r => unwind r end.

(* handler_result.go callSinksAsync: the calls for one result batch, in program order *)
Definition calls (s : shared) (flush : bool) : list instr :=
  if flush then map (fun k => ICall k true) (sinks s) ++ map (fun k => ICall k true) (ssinks s)
  else map ISubmit (sinks s) ++ map (fun k => ICall k false) (ssinks s).
Definition call_sinks : list instr := [IRLock; IExpand false].
Definition flush_sinks : list instr := [IRLock; IExpand true].

Definition mk (p : pc) (c : list instr) (a : nat) : thread := {| t_pc := p; t_code := c; t_arg := a |}.

(* handler_data.go safeSendToDataChan *)
Definition safe_send (s : shared) (id : nat) : option shared :=
  if stopped s then None else if ptr_nil s then None
  else if length (q s) <? cap s then Some (upd_q s (q s ++ [id])) else None.
(* a send on a captured channel reference *)
Definition raw_send (s : shared) (id : nat) : option shared :=
  if length (q s) <? cap s then Some (upd_q s (q s ++ [id])) else None.

(* ---- one step of the instruction at the head of a thread's code *)
Definition istep (c : cfg) (tid : nat) (i : instr) (rest : list instr) (s : shared)
  : option (list instr * shared * list event) :=
  match i with
  | IRLock => match writer s with
              | None => Some (rest, upd_lock s (tid :: readers s) None, [])
              | Some _ => None end
  | IExpand fl =>
      if fl || c_fixed_lock c
      then Some (calls s fl ++ rest, upd_lock s (remove1 tid (readers s)) (writer s), [])
      else Some (calls s fl ++ IRUnlock :: rest, s, [])
  | IRUnlock => Some (rest, upd_lock s (remove1 tid (readers s)) (writer s), [])
  | ISubmit k =>
      (* submitSinkTask: pool has room -> queue; else during shutdown drop; else run inline *)
      if length (pool s) <? c_pool_cap c then Some (rest, upd_pool s (pool s ++ [k]), [])
      else if closed s then Some (rest, s, [])
      else Some (ICall k false :: rest, s, [])
  | ICall k fl => Some (map IAct k ++ IEnd :: rest, s, [ESinkBegin tid fl])
  | IAct ANop => Some (rest, s, [])
  | IAct AStats => Some (rest, s, [])
  | IAct (AAddSink b) => Some (ILock :: IAppend b :: rest, s, [])
  | IAct APanic => Some (unwind rest, s, [])
  | IEnd => Some (rest, s, [ESinkEnd tid])
  | ILock => match writer s, readers s with
             | None, [] => Some (rest, upd_lock s [] (Some tid), [])
             | _, _ => None end
  | IAppend b =>
      let s1 := if b then upd_sinks s (sinks s) (ssinks s ++ [[]]) else upd_sinks s (sinks s ++ [[]]) (ssinks s) in
      Some (rest, upd_lock s1 (readers s1) None, [])
  end.

(* ---- one step of a thread whose code is empty: the transition of its pc.
   [ch] is the adversary's choice. *)
Definition pstep (c : cfg) (tid ch : nat) (p : pc) (a : nat) (s : shared)
  : option (pc * list instr * shared * list event) :=
  match p with
  (* stream.go Start: under startMu, stopped -> return; else lifecycle.Add(1 [+1]) *)
  | PrStart => if stopped s then Some (Done, [], s, [])
               else if c_window c then Some (PrInitW, [], upd_life s (life s + 2) (tokens s), [])
               else Some (PrLoop, [], upd_life s (life s + 1) (tokens s), [])
  (* Process: startWindowProcessing `go func(){ defer lifecycle.Done() ... }` *)
  | PrInitW => Some (PrLoop, [], upd_life s (life s) (tokens s + 1), [])
  (* Process loop head: read dataChan under RLock; nil -> return *)
  | PrLoop => if ptr_nil s then Some (PrExit, [], s, []) else Some (PrSelect, [], s, [])
  (* select { data := <-ch ; <-done ; <-ticker } ; processItem *)
  | PrSelect =>
      match ch with
      | 0 | 1 | 2 =>
          match q s with
          | [] => None
          | id :: r =>
              match ch with
              | 0 => (* the row produces a result: callSinksAsync *)
                     if c_window c then Some (PrLoop, [], upd_wq (upd_q s r) (wq s + 1), [EProc id false])
                     else Some (PrBusy, call_sinks, upd_q s r, [EProc id false])
              | 1 => (* filtered / no match *) Some (PrLoop, [], upd_q s r, [EProc id false])
              | _ => (* panic inside processItem, recovered there *) Some (PrLoop, [], upd_q s r, [EProc id true])
              end
          end
      | 3 => if closed s then Some (PrExit, [], s, []) else None
      | _ => Some (PrLoop, [], s, [])
      end
  | PrBusy => Some (PrLoop, [], s, [])
  | PrExit => Some (Done, [], upd_life s (life s - 1) (tokens s), [])
  (* window-output consumer (processor_data.go startWindowProcessing) *)
  | CoUnborn => match tokens s with 0 => None | S n => Some (CoLoop, [], upd_life s (life s) n, []) end
  | CoLoop =>
      match ch with
      | 0 => match wq s with 0 => None | S n => Some (CoBusy, call_sinks, upd_wq s n, []) end
      | 1 => match wq s with 0 => None | S n => Some (CoLoop, [], upd_wq s n, []) end  (* HAVING/empty result *)
      | 2 => (* processWindowBatch panics *)
             match wq s with 0 => None
             | S n => if c_batch_recover c then Some (CoLoop, [], upd_wq s n, []) else Some (CoExit, [], upd_wq s n, []) end
      | _ => if closed s then Some (CoExit, [], s, []) else None
      end
  | CoBusy => Some (CoLoop, [], s, [])
  | CoExit => Some (Done, [], upd_life s (life s - 1) (tokens s), [])
  (* handler_result.go startSinkWorkerPool *)
  | WkLoop =>
      match ch with
      | 0 => match pool s with [] => None | k :: r => Some (WkBusy, [ICall k false], upd_pool s r, []) end
      | _ => if closed s then Some (WkExit, [], s, []) else None
      end
  | WkBusy => Some (WkLoop, [], s, [])
  | WkExit => Some (Done, [], upd_life s (life s - 1) (tokens s), [])
  (* stream.go Stop *)
  | StBegin => Some (StFlag, [], s, [EStopBegin tid])
  | StFlag => if stopped s then Some (StReturn true, [], s, [])   (* already stopped: return directly *)
              else Some (StClose, [], upd_flags s true (closed s) (wstopped s) (ptr_nil s) (joined s), [])
  | StClose => Some (StWindow, [], upd_flags s (stopped s) true (wstopped s) (ptr_nil s) (joined s), [])
  | StWindow => Some (StNil, [], upd_flags s (stopped s) (closed s) true (ptr_nil s) (joined s), [])
  | StNil => Some (StJoin, [], upd_flags s (stopped s) (closed s) (wstopped s) true (joined s), [])
  (* waitLifecycle: drained, or the grace expires *)
  | StJoin =>
      match ch with
      | 0 => match life s with
             | 0 => Some (StFlush, [], upd_flags s (stopped s) (closed s) (wstopped s) (ptr_nil s) true, [])
             | _ => None end
      | 1 => Some (StReturn false, [], s, [])   (* grace: the flush is still attempted in Go; abandoned sinks are outside the barrier *)
      | _ => None
      end
  | StFlush => if c_cep c then (match ch with 0 => Some (StFlushing, flush_sinks, s, []) | _ => Some (StReturn true, [], s, []) end)
               else Some (StReturn true, [], s, [])
  | StFlushing => Some (StReturn true, [], s, [])
  | StReturn j => Some (Done, [], s, [EStopReturn tid j])
  (* stream.go ProcessSync -> processDirectDataSync -> callSinksAsync *)
  | SyBegin =>
      if c_track_sync c then
        if stopped s then Some (SyEnd false, [], s, [ESyncBegin tid])
        else match ch with
             | 0 => Some (SyBusyT, call_sinks, upd_life s (life s + 1) (tokens s), [ESyncBegin tid])
             | _ => Some (SyExit, [], upd_life s (life s + 1) (tokens s), [ESyncBegin tid])  (* filtered row *)
             end
      else match ch with
           | 0 => Some (SyBusyU, call_sinks, s, [ESyncBegin tid])
           | _ => Some (SyEnd true, [], s, [ESyncBegin tid])
           end
  | SyBusyT => Some (SyExit, [], s, [])
  | SyBusyU => Some (SyEnd true, [], s, [])
  | SyExit => Some (SyEnd true, [], upd_life s (life s - 1) (tokens s), [])
  | SyEnd ok => Some (Done, [], s, [ESyncEnd tid ok])
  | RgBusy => Some (Done, [], s, [])
  | StatsCall => Some (Done, [], s, [])
  (* Window.Trigger(): a batch may appear in the window's output channel (also after Stop: nobody reads it) *)
  | TrigCall => match ch with 0 => Some (Done, [], upd_wq s (wq s + 1), []) | _ => Some (Done, [], s, []) end
  (* strategy.go *)
  | PdStart =>
      match c_strategy c with
      | SDrop => match safe_send s a with
                 | Some s' => Some (Done, [], s', [EEnq a])
                 | None => Some (PdDropGet, [], s, []) end
      | SBlock => if stopped s then Some (Done, [], s, []) else Some (PdBlkGet, [], s, [])
      | SExpand => if stopped s then Some (Done, [], s, []) else Some (PdExpTry, [], s, [])
      end
  | PdDropGet => if ptr_nil s then Some (Done, [], s, []) else Some (PdDropR 3, [], s, [])
  | PdDropR 0 => Some (Done, [], s, [EDropIn a])
  | PdDropR (S n) =>
      match ch with
      | 0 => match raw_send s a with Some s' => Some (Done, [], s', [EEnq a]) | None => None end
      | 1 => Some (PdDropR n, [], s, [])
      | _ => if closed s then Some (Done, [], s, []) else None
      end
  | PdBlkGet => if ptr_nil s then Some (Done, [], s, []) else Some (PdBlkSend, [], s, [])
  | PdBlkSend =>
      match ch with
      | 0 => match raw_send s a with Some s' => Some (Done, [], s', [EEnq a]) | None => None end
      | 1 => if c_block_timeout c then Some (Done, [], s, [EDropIn a]) else None
      | _ => if closed s then Some (Done, [], s, []) else None
      end
  | PdExpTry => match safe_send s a with
                | Some s' => Some (Done, [], s', [EEnq a])
                | None => Some (PdExpGrow, [], s, []) end
  | PdExpGrow => (* expandDataChannel: grows unless at the ceiling / below the threshold *)
      match ch with
      | 0 => if (negb (ptr_nil s)) && (cap s <? c_max_cap c) then Some (PdExpTry2, [], upd_cap s (c_max_cap c), [])
             else Some (PdExpTry2, [], s, [])
      | _ => Some (PdExpTry2, [], s, [])
      end
  | PdExpTry2 => match safe_send s a with
                 | Some s' => Some (Done, [], s', [EEnq a])
                 | None => Some (PdExpW 3, [], s, []) end
  | PdExpW 0 => Some (Done, [], s, [EDropIn a])
  | PdExpW (S n) =>
      match ch with
      | 0 => Some (PdExpT (S n), [], s, [])
      | _ => if closed s then Some (Done, [], s, []) else None
      end
  | PdExpT n => match safe_send s a with
                | Some s' => Some (Done, [], s', [EEnq a])
                | None => Some (PdExpW (pred n), [], s, []) end
  | Done => None
  end.

Definition tstep (c : cfg) (tid ch : nat) (th : thread) (s : shared) : option (thread * shared * list event) :=
  match t_code th with
  | i :: rest =>
      match istep c tid i rest s with
      | Some (code', s', ev) => Some (mk (t_pc th) code' (t_arg th), s', ev)
      | None => None end
  | [] =>
      match pstep c tid ch (t_pc th) (t_arg th) s with
      | Some (p', code', s', ev) => Some (mk p' code' (t_arg th), s', ev)
      | None => None end
  end.

Fixpoint set_nth {A} (n : nat) (x : A) (l : list A) : list A :=
  match l, n with
  | [], _ => []
  | _ :: r, 0 => x :: r
  | y :: r, S m => y :: set_nth m x r
  end.

Definition step (c : cfg) (tid ch : nat) (st : state) : option state :=
  match nth_error (ths st) tid with
  | None => None
  | Some th =>
      match tstep c tid ch th (sh st) with
      | Some (th', s', ev) => Some {| sh := s'; ths := set_nth tid th' (ths st); trace := rev ev ++ trace st |}
      | None => None end
  end.

Definition step_or_skip (c : cfg) (st : state) (e : nat * nat) : state :=
  match step c (fst e) (snd e) st with Some st' => st' | None => st end.
Definition run (c : cfg) (sched : list (nat * nat)) (st : state) : state := fold_left (step_or_skip c) sched st.

(* ---- initial states *)
Definition weight (p : pc) : nat :=
  match p with
  | PrInitW => 2
  | PrLoop | PrSelect | PrBusy | PrExit | CoLoop | CoBusy | CoExit | WkLoop | WkBusy | WkExit | SyBusyT | SyExit => 1
  | _ => 0
  end.
Fixpoint total_weight (l : list thread) : nat :=
  match l with [] => 0 | t :: r => weight (t_pc t) + total_weight r end.

(* roles a test configuration is made of *)
Inductive role := RProcessor | RConsumer | RWorker | RStopper | RSync | RAdd (sync : bool) | RStats | RTrigger | RProducer (id : nat).
Definition spawn (r : role) : thread :=
  match r with
  | RProcessor => mk PrStart [] 0
  | RConsumer => mk CoUnborn [] 0
  | RWorker => mk WkLoop [] 0
  | RStopper => mk StBegin [] 0
  | RSync => mk SyBegin [] 0
  | RAdd b => mk RgBusy [ILock; IAppend b] 0
  | RStats => mk StatsCall [] 0
  | RTrigger => mk TrigCall [] 0
  | RProducer id => mk PdStart [] id
  end.

Definition init (cap0 : nat) (async sync : list sink) (roles : list role) : state :=
  let t := map spawn roles in
  {| sh := {| stopped := false; closed := false; wstopped := false; ptr_nil := false; q := []; cap := cap0;
              life := total_weight t; tokens := 0; readers := []; writer := None;
              sinks := async; ssinks := sync; pool := []; wq := 0; joined := false |};
     ths := t; trace := [] |}.

(* ---- enabledness / stuck states *)
Definition max_choice : nat := 4.
Definition enabledb (c : cfg) (tid : nat) (st : state) : bool :=
  existsb (fun ch => match step c tid ch st with Some _ => true | None => false end) (seq 0 (S max_choice)).
Definition holdsb (tid : nat) (s : shared) : bool :=
  existsb (Nat.eqb tid) (readers s) || match writer s with Some w => Nat.eqb w tid | None => false end.
Definition waits_lock (th : thread) : bool :=
  match t_code th with IRLock :: _ | ILock :: _ => true | _ => false end.
(* a thread waits for sinksMux, cannot get it, and no holder of the lock can move *)
Definition lock_stuckb (c : cfg) (st : state) : bool :=
  existsb (fun tid =>
             match nth_error (ths st) tid with
             | Some th => waits_lock th && negb (enabledb c tid st)
                          && forallb (fun h => negb (holdsb h (sh st)) || negb (enabledb c h st)) (seq 0 (length (ths st)))
             | None => false end)
          (seq 0 (length (ths st))).
