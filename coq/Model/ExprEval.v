(* C06 — the hand-written expression engine, part 2: the evaluators.
   Code anchors (expr/evaluator.go, expr/case_expression.go, expr/expression.go, utils/cast/cast.go):
     ev   = evaluateNodeValue         (+ evaluateOperatorValue, evaluateFieldValue, evaluateFunctionValue)
     evn  = evaluateNodeValueWithNull (Expression.EvaluateValueWithNull: the SELECT path)
     enn  = evaluateNodeWithNull      (Expression.EvaluateWithNull: the aggregate-input path)
     en   = evaluateNode              (Expression.Evaluate: float64 result)
     eb   = evaluateBoolNode          (Expression.EvaluateBool, CASE WHEN conditions)
     cmp_values = compareValues, cmp_eq = compareValuesForEquality
     case_* = evaluateCaseExpression / evaluateCaseExpressionWithNull and their simple-CASE variants
   Numbers are exact rationals (float64 rounding is not modelled; the correspondence uses dyadic
   values for which float64 arithmetic is exact).  int and float64 row values are both [VNum]:
   the engine converts either with cast.ToFloat64E before it computes or compares. *)
From Coq Require Import Qabs.
From SV Require Export Model.ExprSyntax.

Inductive xvalue := VNull | VNum (q : Q) | VStr (s : bytes) | VBool (b : bool).

(* a row: absent key <> key bound to NULL *)
Definition xrow := list (bytes * xvalue).
Fixpoint xlookup (r : xrow) (k : bytes) : option xvalue :=
  match r with
  | [] => None
  | (k', v) :: r' => if bytes_eqb k k' then Some v else xlookup r' k
  end.

Inductive xres (A : Type) := XOk (a : A) | XErr.
Arguments XOk {A} a.
Arguments XErr {A}.

(* ---- numbers ---- *)
Definition qn (q : Q) : Q := Qred q.
Definition qadd a b := qn (a + b).
Definition qsub a b := qn (a - b).
Definition qmul a b := qn (a * b).
Definition qdiv a b := qn (a / b).
Definition qzero (q : Q) : bool := Z.eqb (Qnum q) 0.
Definition qeqb (a b : Q) : bool := Qeq_bool a b.
Definition qltb (a b : Q) : bool := negb (Qle_bool b a).
Definition qleb (a b : Q) : bool := Qle_bool a b.
(* truncation toward zero, floor, ceiling; Qden is positive *)
Definition qtrunc (q : Q) : Z := Z.quot (Qnum q) (Zpos (Qden q)).
Definition qfloor (q : Q) : Z := Z.div (Qnum q) (Zpos (Qden q)).
Definition qceil (q : Q) : Z := (- Z.div (- Qnum q) (Zpos (Qden q)))%Z.
Definition qofz (z : Z) : Q := inject_Z z.
(* math.Mod: x - y * trunc(x / y), sign of x *)
Definition qmod (x y : Q) : Q := qsub x (qmul y (qofz (qtrunc (qdiv x y)))).
(* math.Pow for an integer exponent >= 0 (other exponents are outside the model) *)
Definition qis_nat (q : Q) : option nat :=
  let r := Qred q in
  match Qden r, Qnum r with
  | 1%positive, Z0 => Some O
  | 1%positive, Zpos n => Some (Pos.to_nat n)
  | _, _ => None
  end.
Fixpoint qpown (x : Q) (n : nat) : Q :=
  match n with O => 1 | S n' => qmul x (qpown x n') end.
(* comparison of a model number with a float64 result of the implementation: equal, or within
   2^-40 relative error (inexact float64 division).  Used by the driver only. *)
Definition q_close (a b : Q) : bool :=
  qeqb a b ||
  Qle_bool (Qabs (a - b)) ((1 # 1099511627776) * (if Qle_bool (Qabs a) (Qabs b) then Qabs b else Qabs a)).
(* math.Round: half away from zero *)
Definition qround (q : Q) : Z :=
  if Qle_bool 0 q then qfloor (q + (1 # 2)) else qceil (q - (1 # 2)).

(* ---- strconv.ParseFloat on the strings the model admits: [+-]digits[.digits] ----
   (exponents, hex floats, inf/nan, underscores are outside the modelled input class) *)
Definition is_digit (c : byte) : bool := N.leb 48 c && N.leb c 57.
Fixpoint dec_digits (s : bytes) (acc : Z) (n : nat) : option (Z * nat * bytes) :=
  (* reads a maximal digit run: value, digit count, rest *)
  match s with
  | c :: s' => if is_digit c then dec_digits s' (acc * 10 + Z.of_N (N.sub c 48%N))%Z (S n) else Some (acc, n, s)
  | [] => Some (acc, n, s)
  end.
Definition pow10 (n : nat) : positive := Pos.of_nat (Nat.pow 10 n).
Definition parse_dec (s : bytes) : option Q :=
  let '(neg, s1) := match s with
                    | 45%N :: r => (true, r)
                    | 43%N :: r => (false, r)
                    | _ => (false, s)
                    end in
  match dec_digits s1 0%Z O with
  | Some (ip, n1, rest) =>
      match rest with
      | [] => if Nat.eqb n1 O then None else Some (qn (inject_Z (if neg then - ip else ip)))
      | 46%N :: fr =>
          match dec_digits fr 0%Z O with
          | Some (fp, n2, []) =>
              if Nat.eqb (n1 + n2)%nat O then None
              else let m := (ip * Zpos (pow10 n2) + fp)%Z in
                   Some (qn ((if neg then - m else m) # pow10 n2))
          | _ => None
          end
      | _ => None
      end
  | None => None
  end.

(* cast.ToFloat64E *)
Definition to_float (v : xvalue) : option Q :=
  match v with
  | VNum q => Some q
  | VBool b => Some (if b then 1 else 0)
  | VStr s => parse_dec s
  | VNull => None
  end.

(* strconv.ParseBool *)
Definition parse_bool (s : bytes) : option bool :=
  if bytes_eqb s [49]%N || bytes_eqb s [116]%N || bytes_eqb s [84]%N || bytes_eqb s [84;82;85;69]%N
     || bytes_eqb s [116;114;117;101]%N || bytes_eqb s [84;114;117;101]%N then Some true
  else if bytes_eqb s [48]%N || bytes_eqb s [102]%N || bytes_eqb s [70]%N || bytes_eqb s [70;65;76;83;69]%N
     || bytes_eqb s [102;97;108;115;101]%N || bytes_eqb s [70;97;108;115;101]%N then Some false
  else None.

(* cast.ToBool *)
Definition to_bool (v : xvalue) : bool :=
  match v with
  | VBool b => b
  | VNum q => negb (qzero q)
  | VStr s => match parse_bool s with Some b => b | None => false end
  | VNull => false
  end.

(* fmt.Sprintf("%v", v) as far as a comparison with a NON-numeric string can see it:
   a rendered number is always numeric text, so it never equals such a string *)
Definition sprint (v : xvalue) : option bytes :=
  match v with
  | VStr s => Some s
  | VBool true => Some [116;114;117;101]%N
  | VBool false => Some [102;97;108;115;101]%N
  | _ => None
  end.

Fixpoint bytes_ltb (a b : bytes) : bool :=
  match a, b with
  | [], [] => false
  | [], _ :: _ => true
  | _ :: _, [] => false
  | x :: a', y :: b' => N.ltb x y || (N.eqb x y && bytes_ltb a' b')
  end.

Definition cmp_floats (c : xcmpop) (a b : Q) : bool :=
  match c with
  | CEq | CEq2 => qeqb a b
  | CNe | CNe2 => negb (qeqb a b)
  | CLt => qltb a b | CLe => qleb a b
  | CGt => qltb b a | CGe => qleb b a
  end.

Definition cmp_strings (c : xcmpop) (a b : bytes) : bool :=
  match c with
  | CEq | CEq2 => bytes_eqb a b
  | CNe | CNe2 => negb (bytes_eqb a b)
  | CLt => bytes_ltb a b | CLe => negb (bytes_ltb b a)
  | CGt => bytes_ltb b a | CGe => negb (bytes_ltb a b)
  end.

Definition is_eq_op (c : xcmpop) : bool :=
  match c with CEq | CEq2 | CNe | CNe2 => true | _ => false end.

Definition sprint_eqb (l r : xvalue) : bool :=
  match sprint l, sprint r with
  | Some a, Some b => bytes_eqb a b
  | _, _ => false
  end.

(* compareValues *)
Definition cmp_values (c : xcmpop) (l r : xvalue) : xres bool :=
  match l, r with
  | VNull, _ | _, VNull => XOk false
  | _, _ =>
    match to_float l, to_float r with
    | Some a, Some b => XOk (cmp_floats c a b)
    | Some _, None | None, Some _ =>
        if is_eq_op c then
          XOk (match c with CNe | CNe2 => negb (sprint_eqb l r) | _ => sprint_eqb l r end)
        else XErr
    | None, None =>
        match sprint l, sprint r with
        | Some a, Some b => XOk (cmp_strings c a b)
        | _, _ => XErr (* unreachable: a value that is not numeric is a string *)
        end
    end
  end.

(* compareValuesForEquality *)
Definition cmp_eq (l r : xvalue) : bool :=
  match l, r with
  | VNull, VNull => true
  | VNull, _ | _, VNull => false
  | _, _ =>
    match to_float l, to_float r with
    | Some a, Some b => qeqb a b
    | _, _ => sprint_eqb l r
    end
  end.

(* ---- built-in scalar functions with an exact meaning (functions/functions_*.go Execute) ----
   FUnmodelled: the function, or this argument shape, has no Gallina meaning (differential only). *)
Inductive xfres := FOk (v : xvalue) | FErr | FUnmodelled.

Definition ascii_upper (c : byte) : byte := if N.leb 97 c && N.leb c 122 then (c - 32)%N else c.
Definition ascii_lower (c : byte) : byte := if N.leb 65 c && N.leb c 90 then (c + 32)%N else c.
Definition all_ascii (s : bytes) : bool := forallb (fun c => N.ltb c 128) s.


(* function names as byte strings *)
Definition nm_abs : bytes := [97;98;115]%N.
Definition nm_ceil : bytes := [99;101;105;108]%N.
Definition nm_ceiling : bytes := [99;101;105;108;105;110;103]%N.
Definition nm_coalesce : bytes := [99;111;97;108;101;115;99;101]%N.
Definition nm_concat : bytes := [99;111;110;99;97;116]%N.
Definition nm_floor : bytes := [102;108;111;111;114]%N.
Definition nm_greatest : bytes := [103;114;101;97;116;101;115;116]%N.
Definition nm_if_null : bytes := [105;102;95;110;117;108;108]%N.
Definition nm_least : bytes := [108;101;97;115;116]%N.
Definition nm_len : bytes := [108;101;110]%N.
Definition nm_length : bytes := [108;101;110;103;116;104]%N.
Definition nm_lower : bytes := [108;111;119;101;114]%N.
Definition nm_lpad : bytes := [108;112;97;100]%N.
Definition nm_rpad : bytes := [114;112;97;100]%N.
Definition nm_mod : bytes := [109;111;100]%N.
Definition nm_round : bytes := [114;111;117;110;100]%N.
Definition nm_sign : bytes := [115;105;103;110]%N.
Definition nm_upper : bytes := [117;112;112;101;114]%N.

(* cast.ToStringE on the values whose rendering is exact text (numbers are rendered by strconv:
   not modelled) *)
Definition to_string (v : xvalue) : option bytes :=
  match v with
  | VNull => Some []
  | VStr s => Some s
  | VBool true => Some [116;114;117;101]%N
  | VBool false => Some [102;97;108;115;101]%N
  | VNum _ => None
  end.

Definition fn_num1 (g : Q -> xvalue) (args : list xvalue) : xfres :=
  match args with
  | [v] => match to_float v with Some q => FOk (g q) | None => FErr end
  | _ => FErr (* Validate: argument count *)
  end.

Definition fn_str1 (g : bytes -> xvalue) (args : list xvalue) : xfres :=
  match args with
  | [v] => match to_string v with Some s => if all_ascii s then FOk (g s) else FUnmodelled | None => FUnmodelled end
  | _ => FErr
  end.

Fixpoint fn_concat (args : list xvalue) (acc : bytes) : xfres :=
  match args with
  | [] => FOk (VStr acc)
  | v :: r => match to_string v with Some s => fn_concat r (acc ++ s) | None => FUnmodelled end
  end.

(* greatest / least: keep the running extreme; numeric comparison when both convert, else %v strings *)
Fixpoint fn_extreme (gt : bool) (cur : xvalue) (args : list xvalue) : xfres :=
  match args with
  | [] => FOk cur
  | v :: r =>
      match v with
      | VNull => FOk VNull
      | _ =>
        match to_float cur, to_float v with
        | Some a, Some b =>
            fn_extreme gt (if (if gt then qltb a b else qltb b a) then v else cur) r
        | _, _ =>
            match sprint cur, sprint v with
            | Some a, Some b =>
                fn_extreme gt (if (if gt then bytes_ltb a b else bytes_ltb b a) then v else cur) r
            | _, _ => FUnmodelled (* a number rendered with %v against a non-numeric string *)
            end
        end
      end
  end.

(* lpad / rpad (functions/functions_string.go LpadFunction / RpadFunction.Execute): the string is
   brought to [n] BYTES by the pad string repeated cyclically and cut to the gap; an empty pad is a
   blank; a string that is already long enough is returned as it is.
   [pad_cycle pad cur k] = the first k bytes of cur ++ pad ++ pad ++ ... *)
Fixpoint pad_cycle (pad cur : bytes) (k : nat) : bytes :=
  match k with
  | O => []
  | S k' => match cur with
            | c :: r => c :: pad_cycle pad r k'
            | [] => match pad with
                    | c :: r => c :: pad_cycle pad r k'
                    | [] => []
                    end
            end
  end.
Definition pad_fill (pad : bytes) (k : nat) : bytes :=
  let p := match pad with [] => [32]%N | _ :: _ => pad end in pad_cycle p p k.
Definition pad_value (left : bool) (s : bytes) (n : nat) (pad : bytes) : bytes :=
  if Nat.leb n (length s) then s
  else let fill := pad_fill pad (n - length s) in if left then fill ++ s else s ++ fill.
(* the length argument goes through cast.ToInt64E: modelled for a non-negative integral number *)
Definition fn_pad (left : bool) (args : list xvalue) : xfres :=
  let go (sv nv : xvalue) (pad : option bytes) : xfres :=
    match to_string sv, nv, pad with
    | Some s, VNum q, Some p =>
        match qis_nat q with
        | Some n => FOk (VStr (pad_value left s n p))
        | None => FUnmodelled
        end
    | _, _, _ => FUnmodelled
    end in
  match args with
  | [sv; nv] => go sv nv (Some [])
  | [sv; nv; pv] => go sv nv (to_string pv)
  | _ => FErr (* Validate: argument count *)
  end.

Definition fn_call (name : bytes) (args : list xvalue) : xfres :=
  if bytes_eqb name nm_abs then fn_num1 (fun q => VNum (qn (Qabs q))) args
  else if bytes_eqb name nm_sign then
    fn_num1 (fun q => VNum (if qltb 0 q then 1 else if qltb q 0 then inject_Z (-1) else 0)) args
  else if bytes_eqb name nm_floor then fn_num1 (fun q => VNum (qofz (qfloor q))) args
  else if bytes_eqb name nm_ceil || bytes_eqb name nm_ceiling then fn_num1 (fun q => VNum (qofz (qceil q))) args
  else if bytes_eqb name nm_round then
    match args with
    | [VNull] => FOk VNull
    | [_] => fn_num1 (fun q => VNum (qofz (qround q))) args
    | [_; _] => FUnmodelled
    | _ => FErr
    end
  else if bytes_eqb name nm_mod then
    match args with
    | [x; y] => match to_float x with
                | None => FErr
                | Some a => match to_float y with
                            | None => FErr
                            | Some b => if qzero b then FErr else FOk (VNum (qmod a b))
                            end
                end
    | _ => FErr
    end
  else if bytes_eqb name nm_coalesce then
    match args with
    | [] => FErr
    | _ => FOk ((fix go (l : list xvalue) : xvalue :=
                   match l with [] => VNull | VNull :: r => go r | v :: _ => v end) args)
    end
  else if bytes_eqb name nm_if_null then
    match args with
    | [VNull; y] => FOk y
    | [x; _] => FOk x
    | _ => FErr
    end
  else if bytes_eqb name nm_greatest || bytes_eqb name nm_least then
    match args with
    | [] => FErr
    | VNull :: _ => FOk VNull
    | v :: r => fn_extreme (bytes_eqb name nm_greatest) v r
    end
  else if bytes_eqb name nm_upper then fn_str1 (fun s => VStr (map ascii_upper s)) args
  else if bytes_eqb name nm_lower then fn_str1 (fun s => VStr (map ascii_lower s)) args
  else if bytes_eqb name nm_length || bytes_eqb name nm_len then
    match args with
    | [VStr s] => FOk (VNum (qofz (Z.of_nat (length s))))
    | [VNull] => FOk (VNum 0)
    | [VBool b] => FOk (VNum (if b then 4 else 5))
    | [VNum _] => FUnmodelled
    | _ => FErr
    end
  else if bytes_eqb name nm_concat then
    match args with [] => FErr | _ => fn_concat args [] end
  else if bytes_eqb name nm_lpad then fn_pad true args
  else if bytes_eqb name nm_rpad then fn_pad false args
  else FUnmodelled.

(* ---- results ---- *)
Inductive xout (A : Type) := OVal (a : A) | OErr | OUnm.   (* OUnm: left the modelled fragment *)
Arguments OVal {A} a.
Arguments OErr {A}.
Arguments OUnm {A}.

Definition obind {A B} (x : xout A) (k : A -> xout B) : xout B :=
  match x with OVal a => k a | OErr => OErr | OUnm => OUnm end.

Definition of_res {A} (x : xres A) : xout A := match x with XOk a => OVal a | XErr => OErr end.

(* arithmetic on two converted operands: evaluateOperatorValue's switch (and evaluateOperatorNode's) *)
Definition arith (o : xbinop) (a b : Q) : xout Q :=
  match o with
  | OAdd => OVal (qadd a b)
  | OSub => OVal (qsub a b)
  | OMul => OVal (qmul a b)
  | ODiv => if qzero b then OErr else OVal (qdiv a b)
  | OMod => if qzero b then OErr else OVal (qmod a b)
  | OPow => match qis_nat b with Some n => OVal (qpown a n) | None => OUnm end
  end.

(* evaluateFunctionNode's conversion of a function result to float64 *)
Definition fun_to_float (v : xvalue) : xout Q :=
  match v with
  | VNum q => OVal q
  | VStr s => OVal (match parse_dec s with Some q => q | None => qofz (Z.of_nat (length s)) end)
  | VBool b => OVal (if b then 1 else 0)
  | VNull => OErr
  end.

Section MapM.
Context {A B : Type} (f : A -> xout B).
Fixpoint mapM (l : list A) : xout (list B) :=
  match l with
  | [] => OVal []
  | a :: l' => obind (f a) (fun v => obind (mapM l') (fun vs => OVal (v :: vs)))
  end.
End MapM.

Definition call (g : bytes) (args : list xvalue) : xout xvalue :=
  match fn_call g args with FOk v => OVal v | FErr => OErr | FUnmodelled => OUnm end.

(* bodies shared by the mutually recursive evaluators (Go: evaluateOperatorValue is called from
   evaluateNodeValue and from evaluateNodeValueWithNull on the same node) *)
Definition is_vnull (v : xvalue) : bool := match v with VNull => true | _ => false end.
Definition cmp_body (c : xcmpop) (ra rb : xout xvalue) : xout bool :=
  obind ra (fun a => obind rb (fun b => of_res (cmp_values c a b))).
Definition bin_body (o : xbinop) (ra rb : xout (xvalue * bool)) : xout xvalue :=
  obind ra (fun a => obind rb (fun b =>
    (* leftIsNull || rightIsNull || left == nil || right == nil  (the value test is the repair of
       finding F18: a nested arithmetic operand reports NULL as (nil, isNull = false)) *)
    if snd a || snd b || is_vnull (fst a) || is_vnull (fst b) then OVal VNull
    else match to_float (fst a) with
         | None => OErr
         | Some x => match to_float (fst b) with
                     | None => OErr
                     | Some y => obind (arith o x y) (fun q => OVal (VNum q))
                     end
         end)).
Definition and_body (ra rb : xout bool) : xout bool := obind ra (fun a => if a then rb else OVal false).
Definition or_body (ra rb : xout bool) : xout bool := obind ra (fun a => if a then OVal true else rb).
Definition wrap_bool (r : xout bool) : xout xvalue := obind r (fun b => OVal (VBool b)).
Definition not_null (r : xout xvalue) : xout (xvalue * bool) := obind r (fun v => OVal (v, false)).
Definition null_if_nil (r : xout xvalue) : xout (xvalue * bool) :=
  obind r (fun v => OVal (v, match v with VNull => true | _ => false end)).

Section Eval.
Variable row : xrow.

Fixpoint ev (n : xnode) : xout xvalue :=
  match n with
  | NNum q => OVal (VNum q)
  | NStr s => OVal (VStr s)
  | NField f => match xlookup row f with Some v => OVal v | None => OErr end
  | NParen e => ev e
  | NAnd l r => wrap_bool (and_body (eb l) (eb r))
  | NOr l r => wrap_bool (or_body (eb l) (eb r))
  | NCmp c l r => wrap_bool (cmp_body c (ev l) (ev r))
  | NBin o l r => bin_body o (evn l) (evn r)
  | NFun g args => obind (mapM ev args) (call g)
  end
with evn (n : xnode) : xout (xvalue * bool) :=
  match n with
  | NNum q => OVal (VNum q, false)
  | NStr s => OVal (VStr s, false)
  | NField f => match xlookup row f with
                | None => OVal (VNull, true)
                | Some VNull => OVal (VNull, true)
                | Some v => OVal (v, false)
                end
  | NParen e => evn e
  | NFun g args => null_if_nil (obind (mapM ev args) (call g))
  | NAnd l r => not_null (wrap_bool (and_body (eb l) (eb r)))
  | NOr l r => not_null (wrap_bool (or_body (eb l) (eb r)))
  | NCmp c l r => not_null (wrap_bool (cmp_body c (ev l) (ev r)))
  | NBin o l r => not_null (bin_body o (evn l) (evn r))
  end
with eb (n : xnode) : xout bool :=
  match n with
  | NAnd l r => and_body (eb l) (eb r)
  | NOr l r => or_body (eb l) (eb r)
  | NCmp c l r => cmp_body c (ev l) (ev r)
  | NBin _ _ _ => OErr
  | NFun g args => obind (obind (mapM ev args) (call g)) (fun v => OVal (to_bool v))
  | NParen e => eb e
  | NField f => match xlookup row f with Some v => OVal (to_bool v) | None => OVal false end
  | NNum q => OVal (negb (qzero q))
  | NStr s => OVal (match s with [] => false | _ => true end)
  end.

(* evaluateNode: float64 result *)
Fixpoint en (n : xnode) : xout Q :=
  match n with
  | NNum q => OVal q
  | NStr s => OVal (match parse_dec s with Some q => q | None => qofz (Z.of_nat (length s)) end)
  | NField f => match xlookup row f with
                | Some v => match to_float v with Some q => OVal q | None => OErr end
                | None => OErr
                end
  | NCmp c l r => obind (ev l) (fun a => obind (ev r) (fun b =>
                    obind (of_res (cmp_values c a b)) (fun t => OVal (if t then 1 else 0))))
  | NBin o l r => obind (en l) (fun a => obind (en r) (fun b => arith o a b))
  | NAnd l r | NOr l r => obind (en l) (fun _ => obind (en r) (fun _ => OErr))
  | NFun _ _ => obind (ev n) fun_to_float
  | NParen e => en e
  end.

(* evaluateNodeWithNull: (float64, isNull) *)
Fixpoint enn (n : xnode) : xout (Q * bool) :=
  match n with
  | NNum q => OVal (q, false)
  | NStr _ => OErr
  | NField f => match xlookup row f with
                | None | Some VNull => OVal (0, true)
                | Some v => match to_float v with Some q => OVal (q, false) | None => OErr end
                end
  | NCmp c l r =>
      obind (evn l) (fun a => obind (evn r) (fun b =>
        if snd a || snd b then OVal (0, true)
        else obind (of_res (cmp_values c (fst a) (fst b))) (fun t => OVal (if t then 1 else 0, false))))
  | NBin o l r =>
      obind (enn l) (fun a => if snd a then OVal (0, true) else
      obind (enn r) (fun b => if snd b then OVal (0, true) else
        match o with
        | OPow => OErr
        | _ => obind (arith o (fst a) (fst b)) (fun q => OVal (q, false))
        end))
  | NAnd l r | NOr l r =>
      obind (enn l) (fun a => if snd a then OVal (0, true) else
      obind (enn r) (fun b => if snd b then OVal (0, true) else OErr))
  | NFun _ _ => obind (en n) (fun q => OVal (q, false))
  | NParen e => enn e
  end.

(* ---- CASE ---- *)
(* evaluateSearchCaseExpression / evaluateSimpleCaseExpression (float64) *)
Fixpoint case_search_f (ws : list (xnode * xnode)) (els : option xnode) : xout Q :=
  match ws with
  | [] => match els with Some e => en e | None => OVal 0 end
  | (c, x) :: ws' => obind (eb c) (fun t => if t then en x else case_search_f ws' els)
  end.
Fixpoint case_simple_f (cv : xvalue) (ws : list (xnode * xnode)) (els : option xnode) : xout Q :=
  match ws with
  | [] => match els with Some e => en e | None => OVal 0 end
  | (c, x) :: ws' => obind (ev c) (fun w => if cmp_eq cv w then en x else case_simple_f cv ws' els)
  end.
(* evaluateCaseExpressionWithNull / evaluateCaseExpressionValueWithNull *)
Fixpoint case_search_n (ws : list (xnode * xnode)) (els : option xnode) : xout (xvalue * bool) :=
  match ws with
  | [] => match els with Some e => evn e | None => OVal (VNull, true) end
  | (c, x) :: ws' => obind (eb c) (fun t => if t then evn x else case_search_n ws' els)
  end.
Definition cmp_eq_null (a b : xvalue * bool) : bool :=
  if snd a && snd b then true else if snd a || snd b then false else cmp_eq (fst a) (fst b).
Fixpoint case_simple_n (cv : xvalue * bool) (ws : list (xnode * xnode)) (els : option xnode) : xout (xvalue * bool) :=
  match ws with
  | [] => match els with Some e => evn e | None => OVal (VNull, true) end
  | (c, x) :: ws' => obind (evn c) (fun w => if cmp_eq_null cv w then evn x else case_simple_n cv ws' els)
  end.

(* ---- the four public entry points on a parsed expression (expr/expression.go) ---- *)
(* Evaluate *)
Definition top_eval (t : xtop) : xout Q :=
  match t with
  | TopE e => en e
  | TopCase None ws els => case_search_f ws els
  | TopCase (Some v) ws els => obind (ev v) (fun cv => case_simple_f cv ws els)
  end.
(* EvaluateValueWithNull *)
Definition top_value_null (t : xtop) : xout (xvalue * bool) :=
  match t with
  | TopE e => evn e
  | TopCase None ws els => case_search_n ws els
  | TopCase (Some v) ws els => obind (evn v) (fun cv => case_simple_n cv ws els)
  end.
(* EvaluateWithNull *)
Definition top_with_null (t : xtop) : xout (Q * bool) :=
  match t with
  | TopE e => enn e
  | _ => obind (top_value_null t) (fun r =>
           if snd r then OVal (0, true)
           else match to_float (fst r) with Some q => OVal (q, false) | None => OErr end)
  end.
(* EvaluateBool *)
Definition top_bool (t : xtop) : xout bool :=
  match t with
  | TopE e => eb e
  | _ => OErr
  end.

End Eval.
